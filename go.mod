module verif

go 1.26.8

require (
	github.com/anishathalye/porcupine v1.3.0
	github.com/vx-labs/wasp/v4 v4.0.0
)

replace github.com/vx-labs/wasp/v4 => /repo
