package h

import (
	"time"
	"crypto/sha256"
	"encoding/hex"
	"encoding/json"
	"fmt"
	"os"
	"path/filepath"
	"sort"
	"strings"
	"testing"
)

// ---------------------------------------------------------------------------------------
// PRNG: everything random in a run derives from one 64-bit value.

func splitmix(x uint64) uint64 {
	x += 0x9e3779b97f4a7c15
	x = (x ^ (x >> 30)) * 0xbf58476d1ce4e5b9
	x = (x ^ (x >> 27)) * 0x94d049bb133111eb
	return x ^ (x >> 31)
}

// mix derives a sub-seed from a seed and integer/string labels (keyed decisions).
func mix(seed uint64, labels ...interface{}) uint64 {
	x := splitmix(seed)
	for _, l := range labels {
		switch v := l.(type) {
		case int:
			x = splitmix(x ^ uint64(v))
		case int64:
			x = splitmix(x ^ uint64(v))
		case uint64:
			x = splitmix(x ^ v)
		case string:
			for i := 0; i < len(v); i++ {
				x = splitmix(x ^ uint64(v[i]))
			}
			x = splitmix(x ^ 0xff51)
		default:
			panic("mix: bad label")
		}
	}
	return x
}

type Rand struct{ s uint64 }

func NewRand(seed uint64) *Rand { return &Rand{s: splitmix(seed ^ 0x5851f42d4c957f2d)} }
func (r *Rand) U64() uint64 {
	r.s += 0x9e3779b97f4a7c15
	x := r.s
	x = (x ^ (x >> 30)) * 0xbf58476d1ce4e5b9
	x = (x ^ (x >> 27)) * 0x94d049bb133111eb
	return x ^ (x >> 31)
}
func (r *Rand) Intn(n int) int {
	if n <= 0 {
		return 0
	}
	return int(r.U64() % uint64(n))
}
func (r *Rand) Range(lo, hi int) int { return lo + r.Intn(hi-lo+1) } // inclusive
func (r *Rand) Float() float64       { return float64(r.U64()>>11) / float64(1<<53) }
func (r *Rand) Bool(p float64) bool  { return r.Float() < p }
func (r *Rand) Pick(xs []string) string {
	return xs[r.Intn(len(xs))]
}
func (r *Rand) PickInt(xs []int) int { return xs[r.Intn(len(xs))] }
func (r *Rand) Perm(n int) []int {
	p := make([]int, n)
	for i := range p {
		p[i] = i
	}
	for i := n - 1; i > 0; i-- {
		j := r.Intn(i + 1)
		p[i], p[j] = p[j], p[i]
	}
	return p
}

// ---------------------------------------------------------------------------------------
// Cases, steps, outcomes

// Step is the universal scenario step; each engine documents which fields it reads.
type Step struct {
	K  string   `json:"k"`
	At int64    `json:"at,omitempty"`
	C  int      `json:"c,omitempty"`
	N  int      `json:"n,omitempty"`
	I  int64    `json:"i,omitempty"`
	J  int64    `json:"j,omitempty"`
	Q  int      `json:"q,omitempty"`
	S  string   `json:"s,omitempty"`
	T  string   `json:"t,omitempty"`
	U  string   `json:"u,omitempty"`
	L  []string `json:"l,omitempty"`
	QL []int    `json:"ql,omitempty"`
	B  []byte   `json:"b,omitempty"`
	F  bool     `json:"f,omitempty"`
	G  bool     `json:"g,omitempty"`
	W  bool     `json:"w,omitempty"` // E1: apply the next step in the same driver turn (no quiescence in between)
}

type Case struct {
	Prop    string           `json:"property"`
	Profile string           `json:"profile"`
	Build   string           `json:"build"` // maporder | lockstep
	Variant string           `json:"variant,omitempty"`
	Seed    uint64           `json:"seed"` // per-run seed: keyed network decisions, ids, schedules
	Knobs   map[string]int64 `json:"knobs,omitempty"`
	Steps   []Step           `json:"steps"`
	// Sched is the forced schedule of the lockstep engine (task index per yield); empty = PRNG
	Sched []int `json:"sched,omitempty"`
}

func (c *Case) knob(name string, def int64) int64 {
	if v, ok := c.Knobs[name]; ok {
		return v
	}
	return def
}
func (c *Case) clone() *Case {
	d := *c
	d.Steps = append([]Step(nil), c.Steps...)
	d.Sched = append([]int(nil), c.Sched...)
	d.Knobs = map[string]int64{}
	for k, v := range c.Knobs {
		d.Knobs[k] = v
	}
	return &d
}

type Violation struct {
	Prop  string            `json:"property"`
	Kind  string            `json:"kind"`
	Attrs map[string]string `json:"attrs,omitempty"`
	Msg   string            `json:"msg"`
	Step  int               `json:"step"`
	SimMs int64             `json:"sim_ms"`
}

func (v *Violation) Sig() string {
	keys := make([]string, 0, len(v.Attrs))
	for k := range v.Attrs {
		keys = append(keys, k)
	}
	sort.Strings(keys)
	var b strings.Builder
	b.WriteString(v.Prop + "/" + v.Kind)
	for _, k := range keys {
		fmt.Fprintf(&b, " %s=%s", k, v.Attrs[k])
	}
	return b.String()
}

type Outcome struct {
	Violations  []Violation
	Stats       map[string]int64 // probes and fault counters (fired, not configured)
	SimMs       int64
	Fingerprint string // identifies the case for distinct counting
	Nontrivial  bool
	Digest      string // canonical history hash (determinism self-test)
	OrderHash   string // event-order hash (interleaving measure)
	StateHash   string // state digest at settle points
	History     []string
	Cover       map[string]bool // property-specific coverage items (e.g. judged (filter, topic) pairs)
}

func newOutcome() *Outcome           { return &Outcome{Stats: map[string]int64{}} }
func (o *Outcome) probe(name string) { o.Stats[name]++ }
func (o *Outcome) cover(item string) {
	if o.Cover == nil {
		o.Cover = map[string]bool{}
	}
	o.Cover[item] = true
}
func (o *Outcome) violate(prop, kind string, step int, simMs int64, attrs map[string]string, f string, a ...interface{}) {
	o.Violations = append(o.Violations, Violation{Prop: prop, Kind: kind, Attrs: attrs, Msg: fmt.Sprintf(f, a...), Step: step, SimMs: simMs})
}

func hashStrings(xs []string) string {
	h := sha256.New()
	for _, x := range xs {
		h.Write([]byte(x))
		h.Write([]byte{0})
	}
	return hex.EncodeToString(h.Sum(nil))[:16]
}

// ---------------------------------------------------------------------------------------
// Checks registry

type Check struct {
	ID      string
	Level   string // exploration | fault_enumeration
	Build   string // maporder | lockstep
	Variant string // distinguishes several checks of one property on one build
	// Statistical: the interleaving is left to the Go runtime (seeded preemption under the race
	// detector): not digest-deterministic; replay re-executes the case until the violation shows
	Statistical bool
	Rule        string // non-triviality / distinctness rule for the evidence file
	Real        []string
	Stub        []string
	Assume      []string
	Profiles    []string
	// Gen generates case i of a batch. tier is quick|thorough.
	Gen func(r *Rand, tier string, profile string) *Case
	// Run executes a case. It must be a pure function of the case and the code.
	Run func(t *testing.T, c *Case) *Outcome
	// PerRunCostHint in ms (scheduling only)
	Cost int
	// Budget seconds per tier
	QuickS, ThoroughS int
	// Isolated: each case runs in its own child process (crash = violation)
	Isolated bool
}

var checks = map[string]*Check{}
var checkVariants = map[string][]*Check{} // property id -> all engine variants

func (c *Check) key() string {
	k := c.ID + "/" + c.Build
	if c.Variant != "" {
		k += "/" + c.Variant
	}
	return k
}

func caseKey(c *Case) string {
	k := c.Prop + "/" + c.Build
	if c.Variant != "" {
		k += "/" + c.Variant
	}
	return k
}

func register(c *Check) {
	checkVariants[c.ID] = append(checkVariants[c.ID], c)
	checks[c.key()] = c
}

// ---------------------------------------------------------------------------------------
// Known findings

type KnownFinding struct {
	Property  string            `json:"property"`
	ID        string            `json:"id"`
	Status    string            `json:"status"` // open | fixed
	Kind      string            `json:"kind"`
	Attrs     map[string]string `json:"attrs,omitempty"` // every listed attr must match exactly ("*" suffix = prefix match)
	What      string            `json:"what"`
	FixCommit string            `json:"fix_commit,omitempty"`
	Replay    string            `json:"replay,omitempty"` // pinned reproduction, relative to /verif
}

type knownFile struct {
	Findings []KnownFinding `json:"findings"`
	Fixed    []string       `json:"fixed_log,omitempty"`
}

func loadKnown() []KnownFinding {
	b, err := os.ReadFile(filepath.Join(verifDir(), "KNOWN_FINDINGS.json"))
	if err != nil {
		return nil
	}
	var k knownFile
	if err := json.Unmarshal(b, &k); err != nil {
		fmt.Fprintf(os.Stderr, "KNOWN_FINDINGS.json unreadable: %v\n", err)
		os.Exit(2)
	}
	return k.Findings
}

func matchKnown(kf []KnownFinding, v *Violation) *KnownFinding {
	for i := range kf {
		k := &kf[i]
		if k.Status != "open" || k.Property != v.Prop {
			continue
		}
		kindOK := false
		for _, alt := range strings.Split(k.Kind, "|") {
			if alt == v.Kind {
				kindOK = true
			}
		}
		if !kindOK {
			continue
		}
		ok := true
		for a, want := range k.Attrs {
			optional := strings.HasPrefix(a, "?") // "?name": must match only when the violation has it
			a = strings.TrimPrefix(a, "?")
			got, has := v.Attrs[a]
			if !has {
				if optional {
					continue
				}
				ok = false
				break
			}
			if strings.HasSuffix(want, "*") {
				if !strings.HasPrefix(got, strings.TrimSuffix(want, "*")) {
					ok = false
				}
			} else if got != want {
				ok = false
			}
		}
		if ok {
			return k
		}
	}
	return nil
}

func verifDir() string {
	if d := os.Getenv("VERIF_DIR"); d != "" {
		return d
	}
	return "/verif"
}

// ---------------------------------------------------------------------------------------
// Shrinking: ddmin over steps, accepting candidates that reproduce the same signature.

func firstSig(o *Outcome, want string) (string, *Violation) {
	for i := range o.Violations {
		if want == "" || o.Violations[i].Sig() == want {
			return o.Violations[i].Sig(), &o.Violations[i]
		}
	}
	return "", nil
}

func shrinkCase(c *Case, sig string, run func(*Case) *Outcome, budget int) (*Case, int) {
	tries := 0
	// bounded in wall-clock time as well: a scenario under controlled scheduling can take seconds
	limitS := int64(90)
	if c.Build == "lockstep" {
		limitS = 40
	}
	deadline := time.Now().Add(time.Duration(envInt("VERIF_SHRINK_S", limitS)) * time.Second)
	reproduces := func(cand *Case) bool {
		if tries >= budget || time.Now().After(deadline) {
			return false
		}
		tries++
		s, _ := firstSig(run(cand), sig)
		return s == sig
	}
	cur := c.clone()
	// a forced schedule does not survive step removal: drop it first if the violation
	// reproduces under the PRNG schedule, otherwise keep steps fixed.
	if len(cur.Sched) > 0 {
		cand := cur.clone()
		cand.Sched = nil
		if reproduces(cand) {
			cur = cand
		} else {
			return cur, tries
		}
	}
	n := 2
	for len(cur.Steps) >= 2 && tries < budget {
		chunk := (len(cur.Steps) + n - 1) / n
		reduced := false
		for start := 0; start < len(cur.Steps); start += chunk {
			end := start + chunk
			if end > len(cur.Steps) {
				end = len(cur.Steps)
			}
			cand := cur.clone()
			cand.Steps = append(append([]Step(nil), cur.Steps[:start]...), cur.Steps[end:]...)
			if len(cand.Steps) == 0 {
				continue
			}
			if reproduces(cand) {
				cur = cand
				if n > 2 {
					n--
				}
				reduced = true
				break
			}
		}
		if !reduced {
			if chunk <= 1 {
				break
			}
			n *= 2
			if n > len(cur.Steps) {
				n = len(cur.Steps)
			}
		}
	}
	return cur, tries
}

// ---------------------------------------------------------------------------------------
// Replay files

type ReplayFile struct {
	Property  string     `json:"property"`
	Build     string     `json:"build"`
	Signature string     `json:"signature"`
	Violation *Violation `json:"violation"`
	Case      *Case      `json:"case"`
	FoundSeed uint64     `json:"found_with_verif_seed"`
	RunIndex  int        `json:"run_index"`
	Shrunk    bool       `json:"minimised"`
	OrigSteps int        `json:"original_steps"`
	TreeHash  string     `json:"tree_hash,omitempty"`
	Note      string     `json:"note,omitempty"`
}

func writeReplay(rf *ReplayFile) string {
	dir := filepath.Join(verifDir(), "replays")
	os.MkdirAll(dir, 0755)
	name := fmt.Sprintf("%s-%d-%d-%s.json", rf.Property, rf.FoundSeed, rf.RunIndex, hashStrings([]string{rf.Signature})[:6])
	p := filepath.Join(dir, name)
	b, _ := json.MarshalIndent(rf, "", " ")
	os.WriteFile(p, b, 0644)
	return p
}
