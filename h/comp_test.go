package h

// E2 sequential component simulations: identifier pool (C06), in-flight table and timeout
// lists (C04), topic-keyed stores (C19). One goroutine, synthetic time, map/set models.

import (
	"bytes"
	"fmt"
	"sort"
	"strings"
	"testing"
	"time"

	"github.com/vx-labs/mqtt-protocol/packet"
	"github.com/vx-labs/wasp/v4/subscriptions"
	"github.com/vx-labs/wasp/v4/topics"
	"github.com/vx-labs/wasp/v4/wasp"
	"github.com/vx-labs/wasp/v4/wasp/ack"
	"github.com/vx-labs/wasp/v4/wasp/expiration"
)

func catchPanic(f func()) (msg string) {
	defer func() {
		if r := recover(); r != nil {
			msg = fmt.Sprint(r)
		}
	}()
	f()
	return ""
}

// =======================================================================================
// C06 identifier pool
//   get            allocate
//   put I=id       release
// knobs: min, max

func runIDPool(t *testing.T, c *Case) *Outcome {
	o := newOutcome()
	min, max := int32(c.knob("min", 1)), int32(c.knob("max", 4))
	pool := wasp.VerifNewMIDPool(min, max)
	out := map[int32]bool{}
	size := int(max-min) + 1
	hist := []string{}
	statesSeen := map[string]bool{}
	defer func() {
		o.History = hist
		o.Digest = hashStrings(hist)
		o.Fingerprint = fingerprintSteps(c)
		o.Stats["allocator_states_visited"] = int64(len(statesSeen))
	}()
	stateKey := func() string {
		if size > 16 {
			return fmt.Sprint(len(out))
		}
		var b strings.Builder
		for i := min; i <= max; i++ {
			if out[i] {
				b.WriteByte('1')
			} else {
				b.WriteByte('0')
			}
		}
		return b.String()
	}
	doGet := func(si int, phase string) (int32, bool) {
		var v int32
		if p := catchPanic(func() { v = pool.Get() }); p != "" {
			o.violate("C06", "panic", si, 0, map[string]string{"op": "get", "phase": phase}, "Get panicked: %s", p)
			return 0, false
		}
		hist = append(hist, fmt.Sprintf("%d get -> %d", si, v))
		if v < min || v > max {
			// exhaustion report
			if len(out) < size {
				o.violate("C06", "false-exhaustion", si, 0, map[string]string{"phase": phase}, "Get reported exhaustion (%d) with %d of %d identifiers free", v, size-len(out), size)
				return v, false
			}
			o.probe("exhaustion_reported")
			return v, true
		}
		if out[v] {
			attrs := map[string]string{"phase": phase, "full": fmt.Sprint(len(out) == size)}
			o.violate("C06", "duplicate-id", si, 0, attrs, "Get handed out %d which is still outstanding (%d of %d outstanding)", v, len(out), size)
			return v, false
		}
		out[v] = true
		return v, true
	}
	for si := range c.Steps {
		s := &c.Steps[si]
		switch s.K {
		case "get":
			if _, ok := doGet(si, "history"); !ok {
				return o
			}
		case "put":
			id := int32(s.I)
			if p := catchPanic(func() { pool.Put(id) }); p != "" {
				kind := "outstanding"
				if id < min || id > max {
					kind = "out-of-range"
				} else if !out[id] {
					kind = "not-outstanding"
				}
				o.violate("C06", "panic", si, 0, map[string]string{"op": "put", "arg": kind, "empty": fmt.Sprint(len(out) == 0 || len(out) == size)}, "Put(%d) panicked: %s", id, p)
				return o
			}
			hist = append(hist, fmt.Sprintf("%d put %d", si, id))
			if out[id] {
				delete(out, id)
				o.probe("release_outstanding")
			} else if id < min || id > max {
				o.probe("release_out_of_range")
			} else {
				o.probe("release_not_outstanding")
			}
		}
		statesSeen[stateKey()] = true
		if size <= 16 {
			o.cover(fmt.Sprintf("[%d..%d] %s", min, max, stateKey()))
		}
	}
	// Drain: exactly the free identifiers must still be allocatable, each once.
	free := size - len(out)
	got := 0
	for i := 0; i < size+2; i++ {
		v, ok := doGet(len(c.Steps), "drain")
		if !ok {
			return o
		}
		if v < min || v > max {
			break
		}
		got++
	}
	if got != free {
		o.violate("C06", "leak", len(c.Steps), 0, map[string]string{"sign": fmt.Sprint(got < free)}, "after the history %d identifiers should be allocatable, the pool handed out %d before reporting exhaustion", free, got)
		return o
	}
	o.Nontrivial = len(c.Steps) >= 2
	return o
}

func genC06(r *Rand, tier, profile string) *Case {
	c := &Case{Profile: "idpool", Knobs: map[string]int64{}}
	var min, max int
	switch r.Intn(8) {
	case 0, 1:
		min, max = 0, 3
	case 2, 3:
		min, max = 1, 4
	case 4:
		min, max = 1, 2
	case 5:
		min, max = 1, 500
	case 6:
		min, max = 5, 9
	default:
		min, max = 0, 65535
	}
	c.Knobs["min"], c.Knobs["max"] = int64(min), int64(max)
	size := max - min + 1
	n := r.Range(1, 14)
	if tier == "thorough" {
		n = r.Range(1, 60)
	}
	if size > 16 && r.Bool(0.3) {
		// long history on a large range, sometimes draining it completely
		n = r.Range(size/2, size+40)
		if size > 1000 && tier != "thorough" && r.Bool(0.7) {
			n = r.Range(20, 400)
		}
	}
	var held []int
	pGet := 0.35 + 0.5*r.Float()
	for i := 0; i < n; i++ {
		if r.Bool(pGet) {
			c.Steps = append(c.Steps, Step{K: "get"})
			held = append(held, -1) // unknown at generation time; releases pick from the range
			continue
		}
		var id int
		switch r.Intn(10) {
		case 0:
			id = min - 1 - r.Intn(3)
		case 1:
			id = max + 1 + r.Intn(3)
		default:
			if size <= 16 || r.Bool(0.5) {
				id = min + r.Intn(minInt(size, len(held)+3))
			} else {
				id = min + r.Intn(size)
			}
		}
		c.Steps = append(c.Steps, Step{K: "put", I: int64(id)})
	}
	return c
}

func minInt(a, b int) int {
	if a < b {
		return a
	}
	return b
}

// =======================================================================================
// C04 in-flight table (ack.Queue) and timeout lists (expiration.List)
//
// queue profile:
//   ins   S=session I=id Q=kind(1 PUBLISH q1, 2 PUBLISH q2, 3 PUBREC, 4 PUBREL) J=deadline offset ms
//   ack   S=session I=id Q=packet type (4 PUBACK, 5 PUBREC, 6 PUBREL, 7 PUBCOMP)
//   sweep J=now offset ms
// list profile (knob impl: 0 pq, 1 skiplist):
//   lins  I=id J=deadline offset ms
//   ldel  I=id                      (deadline taken from the model)
//   sweep J=now offset ms

var t0 = time.Unix(1_600_000_000, 0)

type qEntry struct {
	expect   byte
	deadline time.Time
	fired    int
	expired  bool
	live     bool
	insStep  int
}

func runAckQueue(t *testing.T, c *Case) *Outcome {
	if c.Profile == "list" {
		return runExpList(t, c)
	}
	o := newOutcome()
	q := ack.NewQueue()
	entries := map[string]*qEntry{} // current live or last entry per key
	var all []*qEntry
	hist := []string{}
	defer func() {
		o.History = hist
		o.Digest = hashStrings(hist)
		o.Fingerprint = fingerprintSteps(c)
	}()
	mk := func(kind int, id int32) (packet.Packet, byte) {
		switch kind {
		case 1:
			return &packet.Publish{Header: &packet.Header{Qos: 1}, MessageId: id}, packet.PUBACK
		case 2:
			return &packet.Publish{Header: &packet.Header{Qos: 2}, MessageId: id}, packet.PUBREC
		case 3:
			return &packet.PubRec{Header: &packet.Header{}, MessageId: id}, packet.PUBREL
		default:
			return &packet.PubRel{Header: &packet.Header{}, MessageId: id}, packet.PUBCOMP
		}
	}
	mkAck := func(typ int, id int32) packet.Packet {
		switch byte(typ) {
		case packet.PUBACK:
			return &packet.PubAck{Header: &packet.Header{}, MessageId: id}
		case packet.PUBREC:
			return &packet.PubRec{Header: &packet.Header{}, MessageId: id}
		case packet.PUBREL:
			return &packet.PubRel{Header: &packet.Header{}, MessageId: id}
		default:
			return &packet.PubComp{Header: &packet.Header{}, MessageId: id}
		}
	}
	equalDeadlines, sameSecond := 0, 0
	for si := range c.Steps {
		s := &c.Steps[si]
		key := fmt.Sprintf("%s/%d", s.S, s.I)
		switch s.K {
		case "ins":
			pkt, expect := mk(s.Q, int32(s.I))
			dl := t0.Add(time.Duration(s.J) * time.Millisecond)
			e := &qEntry{expect: expect, deadline: dl, insStep: si}
			var err error
			if p := catchPanic(func() {
				err = q.Insert(s.S, pkt, dl, func(expired bool, stored, received packet.Packet) {
					e.fired++
					e.expired = expired
					if stored != pkt {
						e.fired += 100 // wrong stored packet
					}
				})
			}); p != "" {
				o.violate("C04", "panic", si, 0, map[string]string{"op": "ins"}, "Insert panicked: %s", p)
				return o
			}
			hist = append(hist, fmt.Sprintf("%d ins %s %d dl=%d -> %v", si, key, s.Q, s.J, err))
			if s.I == 0 {
				if err == nil {
					o.violate("C04", "zero-id-accepted", si, 0, nil, "Insert accepted identifier 0")
					return o
				}
				continue
			}
			if cur, ok := entries[key]; ok && cur.live {
				if err == nil {
					o.violate("C04", "duplicate-accepted", si, 0, nil, "Insert of %s succeeded although an entry for it is still awaiting resolution", key)
					return o
				}
				o.probe("duplicate_rejected")
				continue
			}
			if err != nil {
				o.violate("C04", "insert-rejected", si, 0, nil, "Insert of fresh key %s failed: %v", key, err)
				return o
			}
			for _, other := range all {
				if other.live {
					if other.deadline.Equal(dl) {
						equalDeadlines++
					} else if other.deadline.Round(time.Second).Equal(dl.Round(time.Second)) {
						sameSecond++
					}
				}
			}
			e.live = true
			entries[key] = e
			all = append(all, e)
		case "ack":
			pkt := mkAck(s.Q, int32(s.I))
			cur := entries[key]
			before := snapshotFired(all)
			var err error
			if p := catchPanic(func() { err = q.Ack(s.S, pkt) }); p != "" {
				o.violate("C04", "panic", si, 0, map[string]string{"op": "ack"}, "Ack panicked: %s", p)
				return o
			}
			hist = append(hist, fmt.Sprintf("%d ack %s type=%d -> %v", si, key, s.Q, err))
			switch {
			case cur == nil || !cur.live:
				if err == nil {
					o.violate("C04", "unknown-ack-accepted", si, 0, nil, "Ack for %s which has no live entry returned no error", key)
					return o
				}
				o.probe("ack_unknown")
			case byte(s.Q) != cur.expect:
				if err == nil {
					o.violate("C04", "wrong-type-accepted", si, 0, nil, "Ack of %s with packet type %d (awaiting %d) returned no error", key, s.Q, cur.expect)
					return o
				}
				o.probe("ack_wrong_type")
				// entry must stay live: checked by later acks/sweeps and by the final accounting
			default:
				if err != nil {
					o.violate("C04", "right-ack-rejected", si, 0, nil, "Ack of %s with the awaited type failed: %v", key, err)
					return o
				}
				cur.live = false
				if cur.fired != 1 || cur.expired {
					o.violate("C04", "ack-callback", si, 0, map[string]string{"fired": fmt.Sprint(cur.fired)}, "after the awaited acknowledgement of %s its callback ran %d times (expired=%v), want once with expired=false", key, cur.fired, cur.expired)
					return o
				}
				o.probe("acked")
			}
			if bad := otherFired(all, before, cur); bad != "" {
				o.violate("C04", "cross-talk", si, 0, map[string]string{"op": "ack"}, "Ack of %s changed another entry: %s", key, bad)
				return o
			}
		case "sweep":
			now := t0.Add(time.Duration(s.J) * time.Millisecond)
			before := snapshotFired(all)
			if p := catchPanic(func() { q.Expire(now) }); p != "" {
				o.violate("C04", "panic", si, 0, map[string]string{"op": "sweep"}, "Expire panicked: %s", p)
				return o
			}
			fired := 0
			for i, e := range all {
				delta := e.fired - before[i]
				if delta == 0 {
					if e.live && now.Sub(e.deadline) > time.Second {
						attrs := map[string]string{"equal_deadline_peer": fmt.Sprint(hasPeer(all, e, true)), "same_second_peer": fmt.Sprint(hasPeer(all, e, false))}
						o.violate("C04", "not-expired", si, 0, attrs, "sweep at t0+%dms did not expire the entry inserted at step %d whose deadline t0+%dms passed more than 1s ago", s.J, e.insStep, e.deadline.Sub(t0).Milliseconds())
						return o
					}
					continue
				}
				fired++
				if !e.live {
					o.violate("C04", "resolved-twice", si, 0, nil, "sweep fired the callback of the entry inserted at step %d which was already resolved", e.insStep)
					return o
				}
				if delta != 1 || !e.expired {
					o.violate("C04", "expire-callback", si, 0, nil, "sweep ran the callback of entry@%d %d times (expired=%v)", e.insStep, delta, e.expired)
					return o
				}
				if e.deadline.Sub(now) > time.Second {
					o.violate("C04", "expired-early", si, 0, nil, "sweep at t0+%dms expired entry@%d whose deadline t0+%dms is more than 1s away", s.J, e.insStep, e.deadline.Sub(t0).Milliseconds())
					return o
				}
				e.live = false
				o.probe("expired")
			}
			hist = append(hist, fmt.Sprintf("%d sweep %d -> %d", si, s.J, fired))
		}
	}
	// final accounting: a far-future sweep must resolve every live entry exactly once
	before := snapshotFired(all)
	far := t0.Add(1000 * time.Hour)
	if p := catchPanic(func() { q.Expire(far) }); p != "" {
		o.violate("C04", "panic", len(c.Steps), 0, map[string]string{"op": "sweep"}, "Expire panicked: %s", p)
		return o
	}
	for i, e := range all {
		delta := e.fired - before[i]
		if e.live && delta != 1 {
			attrs := map[string]string{"equal_deadline_peer": fmt.Sprint(hasPeer(all, e, true)), "same_second_peer": fmt.Sprint(hasPeer(all, e, false)), "fired": fmt.Sprint(delta)}
			o.violate("C04", "never-resolved", len(c.Steps), 0, attrs, "entry inserted at step %d (deadline t0+%dms) was still awaiting resolution and a sweep far in the future ran its callback %d times", e.insStep, e.deadline.Sub(t0).Milliseconds(), delta)
			return o
		}
		if !e.live && delta != 0 {
			o.violate("C04", "resolved-twice", len(c.Steps), 0, nil, "entry inserted at step %d was resolved before and fired again in the final sweep", e.insStep)
			return o
		}
	}
	o.Stats["equal_deadline_pairs"] += int64(equalDeadlines)
	o.Stats["same_second_pairs"] += int64(sameSecond)
	o.Nontrivial = len(all) >= 2
	return o
}

func hasPeer(all []*qEntry, e *qEntry, equal bool) bool {
	for _, x := range all {
		if x == e {
			continue
		}
		if equal && x.deadline.Equal(e.deadline) {
			return true
		}
		if !equal && !x.deadline.Equal(e.deadline) && x.deadline.Round(time.Second).Equal(e.deadline.Round(time.Second)) {
			return true
		}
	}
	return false
}

func snapshotFired(all []*qEntry) []int {
	out := make([]int, len(all))
	for i, e := range all {
		out[i] = e.fired
	}
	return out
}

func otherFired(all []*qEntry, before []int, except *qEntry) string {
	for i, e := range all {
		if e != except && i < len(before) && e.fired != before[i] {
			return fmt.Sprintf("entry inserted at step %d had its callback run", e.insStep)
		}
	}
	return ""
}

var c04Lattice = []int64{0, 300, 500, 700, 1000, 1300, 2000, 3000, 3000, 3000}

func genC04(r *Rand, tier, profile string) *Case {
	if profile == "list" {
		return genExpList(r, tier)
	}
	c := &Case{Profile: "queue", Knobs: map[string]int64{}}
	n := r.Range(2, 14)
	if tier == "thorough" {
		n = r.Range(2, 50)
	}
	sessions := []string{"s1", "s2", "s3"}
	pickID := func(lo int) int64 { return int64(r.Range(lo, 3)) }
	if r.Bool(0.3) {
		// session ids are whatever the authentication provider hands out: device names that are
		// prefixes of each other, with identifiers whose digits continue them
		sessions = []string{"dev", "dev1", "dev12"}
		pickID = func(lo int) int64 { return int64(r.PickInt([]int{1, 2, 3, 12, 21, 23, 123})) }
	}
	base := int64(0)
	type live struct {
		s  string
		id int64
		k  int
	}
	var lives []live
	for i := 0; i < n; i++ {
		switch x := r.Intn(10); {
		case x < 5:
			st := Step{K: "ins", S: r.Pick(sessions), I: pickID(0), Q: r.Range(1, 4), J: base + c04Lattice[r.Intn(len(c04Lattice))]}
			if r.Bool(0.1) {
				st.J = base - int64(r.Range(0, 3000)) // already past
			}
			c.Steps = append(c.Steps, st)
			lives = append(lives, live{st.S, st.I, st.Q})
		case x < 8:
			st := Step{K: "ack", S: r.Pick(sessions), I: pickID(1), Q: r.Range(4, 7)}
			if len(lives) > 0 && r.Bool(0.7) {
				l := lives[r.Intn(len(lives))]
				st.S, st.I = l.s, l.id
				if r.Bool(0.75) {
					st.Q = []int{0, 4, 5, 6, 7}[l.k]
				}
			}
			c.Steps = append(c.Steps, st)
		default:
			adv := []int64{0, 400, 900, 1100, 1600, 2500, 4200, -700}[r.Intn(8)]
			base += adv
			if base < 0 {
				base = 0
			}
			c.Steps = append(c.Steps, Step{K: "sweep", J: base})
		}
	}
	return c
}

// ---- expiration.List directly (both implementations) -----------------------------------

func runExpList(t *testing.T, c *Case) *Outcome {
	o := newOutcome()
	var l expiration.List
	impl := "pq"
	if c.knob("impl", 0) == 1 {
		l = expiration.VerifNewSkipList()
		impl = "skiplist"
	} else {
		l = expiration.VerifNewPQList()
	}
	type le struct {
		deadline time.Time
		live     bool
		step     int
	}
	model := map[int64]*le{}
	hist := []string{}
	defer func() {
		o.History = hist
		o.Digest = hashStrings(hist)
		o.Fingerprint = fingerprintSteps(c)
	}()
	check := func(si int, now time.Time, got []interface{}) bool {
		seen := map[int64]int{}
		for _, g := range got {
			id, ok := g.(int64)
			if !ok {
				o.violate("C04", "list-foreign-value", si, 0, map[string]string{"impl": impl}, "Expire returned a value that was never inserted: %v", g)
				return false
			}
			seen[id]++
		}
		ids := make([]int64, 0, len(model))
		for id := range model {
			ids = append(ids, id)
		}
		sort.Slice(ids, func(i, j int) bool { return ids[i] < ids[j] })
		for _, id := range ids {
			e := model[id]
			n := seen[id]
			delete(seen, id)
			if !e.live {
				if n > 0 {
					o.violate("C04", "list-removed-item-expired", si, 0, map[string]string{"impl": impl}, "Expire returned item %d which had been deleted or already expired", id)
					return false
				}
				continue
			}
			if n > 1 {
				o.violate("C04", "list-expired-twice", si, 0, map[string]string{"impl": impl}, "Expire returned item %d %d times", id, n)
				return false
			}
			if n == 1 {
				if e.deadline.Sub(now) > time.Second {
					o.violate("C04", "list-expired-early", si, 0, map[string]string{"impl": impl}, "item %d with deadline t0+%dms expired at t0+%dms", id, e.deadline.Sub(t0).Milliseconds(), now.Sub(t0).Milliseconds())
					return false
				}
				e.live = false
				o.probe("list_expired")
			} else if now.Sub(e.deadline) > time.Second {
				o.violate("C04", "list-not-expired", si, 0, map[string]string{"impl": impl}, "sweep at t0+%dms did not return item %d (inserted at step %d) whose deadline t0+%dms passed more than 1s ago", now.Sub(t0).Milliseconds(), id, e.step, e.deadline.Sub(t0).Milliseconds())
				return false
			}
		}
		for id := range seen {
			o.violate("C04", "list-foreign-value", si, 0, map[string]string{"impl": impl}, "Expire returned unknown item %d", id)
			return false
		}
		return true
	}
	for si := range c.Steps {
		s := &c.Steps[si]
		switch s.K {
		case "lins":
			if e, ok := model[s.I]; ok && e.live {
				continue // the table never inserts a live key twice
			}
			dl := t0.Add(time.Duration(s.J) * time.Millisecond)
			if p := catchPanic(func() { l.Insert(s.I, dl) }); p != "" {
				o.violate("C04", "panic", si, 0, map[string]string{"op": "lins", "impl": impl}, "Insert panicked: %s", p)
				return o
			}
			model[s.I] = &le{deadline: dl, live: true, step: si}
			hist = append(hist, fmt.Sprintf("%d lins %d %d", si, s.I, s.J))
		case "ldel":
			e, ok := model[s.I]
			if !ok || !e.live {
				continue
			}
			if p := catchPanic(func() { l.Delete(s.I, e.deadline) }); p != "" {
				o.violate("C04", "panic", si, 0, map[string]string{"op": "ldel", "impl": impl}, "Delete panicked: %s", p)
				return o
			}
			e.live = false
			o.probe("list_deleted")
			hist = append(hist, fmt.Sprintf("%d ldel %d", si, s.I))
		case "sweep":
			now := t0.Add(time.Duration(s.J) * time.Millisecond)
			var got []interface{}
			if p := catchPanic(func() { got = l.Expire(now) }); p != "" {
				o.violate("C04", "panic", si, 0, map[string]string{"op": "sweep", "impl": impl}, "Expire panicked: %s", p)
				return o
			}
			hist = append(hist, fmt.Sprintf("%d sweep %d -> %v", si, s.J, got))
			if !check(si, now, got) {
				return o
			}
		}
	}
	far := t0.Add(1000 * time.Hour)
	var got []interface{}
	if p := catchPanic(func() { got = l.Expire(far) }); p != "" {
		o.violate("C04", "panic", len(c.Steps), 0, map[string]string{"op": "sweep", "impl": impl}, "Expire panicked: %s", p)
		return o
	}
	if !check(len(c.Steps), far, got) {
		return o
	}
	o.Nontrivial = len(model) >= 2
	return o
}

func genExpList(r *Rand, tier string) *Case {
	c := &Case{Profile: "list", Knobs: map[string]int64{"impl": int64(r.Intn(2))}}
	n := r.Range(2, 14)
	if tier == "thorough" {
		n = r.Range(2, 50)
	}
	base := int64(0)
	for i := 0; i < n; i++ {
		switch x := r.Intn(10); {
		case x < 5:
			c.Steps = append(c.Steps, Step{K: "lins", I: int64(r.Range(1, 6)), J: base + c04Lattice[r.Intn(len(c04Lattice))]})
		case x < 7:
			c.Steps = append(c.Steps, Step{K: "ldel", I: int64(r.Range(1, 6))})
		default:
			base += []int64{0, 400, 900, 1100, 1600, 2500, 4200}[r.Intn(7)]
			c.Steps = append(c.Steps, Step{K: "sweep", J: base})
		}
	}
	return c
}

// =======================================================================================
// C19 topic-keyed stores
//   ins  T=key S=value       retained: Insert ; subscriptions: Upsert returning value
//   rem  T=key               retained: Remove ; subscriptions: Upsert returning nil
//   ups  T=key S=suffix      subscriptions: Upsert appending suffix ; retained: Insert(old+suffix)
//   get  T=key               exact-key query
//   all                      count + iteration
//   reload                   rebuild the store from its own dump and continue on the copy
// knob store: 0 retained (topics.Store), 1 subscriptions (subscriptions.Tree)

type kvStore interface {
	put(k string, v []byte) string
	remove(k string) string
	upsert(k string, suffix string) string
	get(k string) ([][]byte, string)
	all() ([][]byte, int, string)
	reload() (kvStore, string)
}

type retainedKV struct{ s topics.Store }

func (r *retainedKV) put(k string, v []byte) string {
	return catchPanic(func() { r.s.Insert([]byte(k), v) })
}
func (r *retainedKV) remove(k string) string {
	return catchPanic(func() { r.s.Remove([]byte(k)) })
}
func (r *retainedKV) upsert(k string, suffix string) string {
	return catchPanic(func() {
		var cur [][]byte
		r.s.Match([]byte(k), &cur)
		var old []byte
		if len(cur) > 0 {
			old = cur[0]
		}
		r.s.Insert([]byte(k), append(append([]byte(nil), old...), suffix...))
	})
}
func (r *retainedKV) get(k string) (out [][]byte, p string) {
	p = catchPanic(func() { r.s.Match([]byte(k), &out) })
	return
}
func (r *retainedKV) all() (out [][]byte, n int, p string) {
	p = catchPanic(func() {
		r.s.Iterate(func(b []byte) { out = append(out, b) })
		n = r.s.Count()
	})
	return
}
func (r *retainedKV) reload() (kvStore, string) {
	var n kvStore
	p := catchPanic(func() {
		b, err := r.s.Dump()
		if err != nil {
			panic(err)
		}
		f := topics.NewTree()
		if err := f.Load(b); err != nil {
			panic(err)
		}
		n = &retainedKV{f}
	})
	return n, p
}

type subsKV struct{ s subscriptions.Tree }

func (r *subsKV) put(k string, v []byte) string {
	return catchPanic(func() { r.s.Upsert([]byte(k), func([]byte) []byte { return v }) })
}
func (r *subsKV) remove(k string) string {
	return catchPanic(func() { r.s.Upsert([]byte(k), func([]byte) []byte { return nil }) })
}
func (r *subsKV) upsert(k string, suffix string) string {
	return catchPanic(func() {
		r.s.Upsert([]byte(k), func(old []byte) []byte { return append(append([]byte(nil), old...), suffix...) })
	})
}
func (r *subsKV) get(k string) (out [][]byte, p string) {
	p = catchPanic(func() {
		r.s.Walk([]byte(k), func(b []byte) {
			if len(b) > 0 {
				out = append(out, b)
			}
		})
	})
	return
}
func (r *subsKV) all() (out [][]byte, n int, p string) {
	p = catchPanic(func() { r.s.Iterate(func(b []byte) { out = append(out, b) }) })
	return out, len(out), p
}
func (r *subsKV) reload() (kvStore, string) {
	var n kvStore
	p := catchPanic(func() {
		b, err := r.s.Dump()
		if err != nil {
			panic(err)
		}
		f := subscriptions.NewTree()
		if err := f.Load(b); err != nil {
			panic(err)
		}
		n = &subsKV{f}
	})
	return n, p
}

func sortedVals(v [][]byte) []string {
	out := make([]string, len(v))
	for i := range v {
		out[i] = string(v[i])
	}
	sort.Strings(out)
	return out
}

func runTrie(t *testing.T, c *Case) *Outcome {
	o := newOutcome()
	var st kvStore
	store := "retained"
	if c.knob("store", 0) == 1 {
		st = &subsKV{subscriptions.NewTree()}
		store = "subscriptions"
	} else {
		st = &retainedKV{topics.NewTree()}
	}
	model := map[string][]byte{}
	hist := []string{}
	reloaded := false
	defer func() {
		o.History = hist
		o.Digest = hashStrings(hist)
		o.Fingerprint = fingerprintSteps(c)
	}()
	attrs := func(op string) map[string]string {
		return map[string]string{"store": store, "op": op, "after_reload": fmt.Sprint(reloaded)}
	}
	// verify compares every key of the universe and the whole-store view with the model
	universe := map[string]bool{}
	for _, s := range c.Steps {
		if s.T != "" {
			universe[s.T] = true
		}
	}
	keys := make([]string, 0, len(universe))
	for k := range universe {
		keys = append(keys, k)
	}
	sort.Strings(keys)
	verify := func(si int, op string) bool {
		for _, k := range keys {
			got, p := st.get(k)
			if p != "" {
				o.violate("C19", "panic", si, 0, attrs("get"), "exact query of %q panicked: %s", k, p)
				return false
			}
			want := model[k]
			if len(want) == 0 {
				if len(got) != 0 {
					o.violate("C19", "phantom-value", si, 0, attrs(op), "after %s, key %q holds %q but should be empty", op, k, got)
					return false
				}
				continue
			}
			if len(got) != 1 || !bytes.Equal(got[0], want) {
				o.violate("C19", "wrong-value", si, 0, attrs(op), "after step %d (%s), key %q holds %q, want %q", si, op, k, sortedVals(got), want)
				return false
			}
		}
		vals, n, p := st.all()
		if p != "" {
			o.violate("C19", "panic", si, 0, attrs("iterate"), "iteration panicked: %s", p)
			return false
		}
		var want []string
		for _, v := range model {
			if len(v) > 0 {
				want = append(want, string(v))
			}
		}
		sort.Strings(want)
		got := sortedVals(vals)
		if n != len(want) || strings.Join(got, "\x00") != strings.Join(want, "\x00") {
			o.violate("C19", "wrong-listing", si, 0, attrs(op), "after step %d (%s), count=%d iteration=%q, want %d entries %q", si, op, n, got, len(want), want)
			return false
		}
		return true
	}
	for si := range c.Steps {
		s := &c.Steps[si]
		var p string
		switch s.K {
		case "ins":
			p = st.put(s.T, []byte(s.S))
			model[s.T] = []byte(s.S)
		case "rem":
			p = st.remove(s.T)
			delete(model, s.T)
		case "ups":
			p = st.upsert(s.T, s.S)
			model[s.T] = append(append([]byte(nil), model[s.T]...), s.S...)
		case "reload":
			var n kvStore
			n, p = st.reload()
			if p == "" {
				st = n
				reloaded = true
				o.probe("reloads")
			}
		case "get", "all":
		default:
			continue
		}
		hist = append(hist, fmt.Sprintf("%d %s %s %s", si, s.K, s.T, s.S))
		if p != "" {
			o.violate("C19", "panic", si, 0, attrs(s.K), "%s(%q) panicked: %s", s.K, s.T, p)
			return o
		}
		// querying is not guaranteed to be free of side effects on the store (lazily allocated
		// nodes): in "sparse" runs the store is only looked at by the queries at the end
		if c.knob("sparse_verify", 0) == 1 && s.K != "get" && s.K != "all" {
			continue
		}
		if !verify(si, s.K) {
			return o
		}
	}
	nonEmpty := 0
	for _, v := range model {
		if len(v) > 0 {
			nonEmpty++
		}
	}
	o.StateHash = hashStrings(append([]string{store}, keysOf(model)...))
	o.cover(store + ":" + strings.Join(keysOf(model), ","))
	o.Nontrivial = len(c.Steps) >= 2
	return o
}

func keysOf(m map[string][]byte) []string {
	var ks []string
	for k, v := range m {
		if len(v) > 0 {
			ks = append(ks, k)
		}
	}
	sort.Strings(ks)
	return ks
}

var c19Keys = []string{"a", "a/b", "a/b/c", "a/c", "b"}

func genC19(r *Rand, tier, profile string) *Case {
	c := &Case{Profile: "trie", Knobs: map[string]int64{"store": int64(r.Intn(2))}}
	if r.Bool(0.5) {
		c.Knobs["sparse_verify"] = 1
	}
	n := r.Range(1, 6)
	if tier == "thorough" && r.Bool(0.5) {
		n = r.Range(1, 20)
	}
	keys := c19Keys
	if r.Bool(0.25) {
		// topic strings that differ only by a trailing (empty) level are different keys
		keys = []string{"a", "a/", "a/b", "a/b/", "b/"}
	} else if r.Bool(0.3) {
		// random 1-4 level keys over a small alphabet, shared prefixes likely
		keys = nil
		for i := 0; i < 5; i++ {
			lv := r.Range(1, 4)
			parts := make([]string, lv)
			for j := range parts {
				parts[j] = r.Pick([]string{"a", "b", "c", "x1"})
			}
			keys = append(keys, strings.Join(parts, "/"))
		}
	}
	reloadAt := -1
	if r.Bool(0.7) {
		reloadAt = r.Intn(n + 1)
	}
	for i := 0; i < n; i++ {
		if i == reloadAt {
			c.Steps = append(c.Steps, Step{K: "reload"})
		}
		k := r.Pick(keys)
		switch x := r.Intn(10); {
		case x < 5:
			v := fmt.Sprintf("v%d", r.Intn(100))
			if r.Bool(0.12) {
				v = "" // writing an empty value: the property counts non-empty entries only
			}
			c.Steps = append(c.Steps, Step{K: "ins", T: k, S: v})
		case x < 8:
			c.Steps = append(c.Steps, Step{K: "rem", T: k})
		default:
			c.Steps = append(c.Steps, Step{K: "ups", T: k, S: fmt.Sprintf("+%d", r.Intn(10))})
		}
	}
	if reloadAt == n {
		c.Steps = append(c.Steps, Step{K: "reload"})
	}
	// make sure every key of the universe is queried
	for _, k := range keys {
		c.Steps = append(c.Steps, Step{K: "get", T: k})
	}
	return c
}

func init() {
	register(&Check{ID: "C06", Level: "exploration", Build: "maporder", Gen: genC06, Run: runIDPool, QuickS: 10, ThoroughS: 200,
		Rule: "a case = allocate/release history (releases of outstanding, free, unknown and out-of-range ids, first call may be a release) on ranges [0..3],[1..4],[1..2],[5..9],[1..500],[0..65535], followed by a drain that must hand out exactly the free ids; non-trivial when >=2 calls; distinct by hash of (range, history)",
		Real: []string{"wasp/idpool.go simpleMidPool (via VerifNewMIDPool)"}, Stub: []string{"none: the allocator has no clock, I/O or peers; callers are the simulated history"},
		Assume: []string{"any value outside [min,max] returned by Get is taken as the exhaustion report", "sequential variant; the concurrent variant is the lockstep engine"}})
	register(&Check{ID: "C04", Level: "exploration", Build: "maporder", Gen: genC04, Run: runAckQueue, QuickS: 10, ThoroughS: 200, Profiles: []string{"queue", "queue", "list"},
		Rule: "a case = register/acknowledge/sweep history over sessions {s1,s2,s3} x ids {0..3} with deadlines from a lattice producing equal, same-second and past deadlines and non-monotone sweep times (profile queue: real ack.Queue; profile list: both expiration.List implementations); ends with a far-future sweep that must resolve every live entry exactly once; non-trivial when >=2 entries were registered; distinct by hash of the history",
		Real: []string{"wasp/ack.Queue", "wasp/expiration pqList, bucket, skip list", "gotomic.Hash"}, Stub: []string{"time: synthetic deadlines and sweep instants passed as parameters", "callbacks: recorders"},
		Assume: []string{"'honoured to the second': a sweep must fire entries whose deadline passed more than 1 s ago and must not fire entries whose deadline is more than 1 s ahead; in between either is accepted"}})
	register(&Check{ID: "C19", Level: "exploration", Build: "maporder", Gen: genC19, Run: runTrie, QuickS: 10, ThoroughS: 200,
		Rule: "a case = up to 6 (thorough: 20) insert/replace/remove/upsert operations over keys with shared prefixes on the retained store or the subscription index, a dump/load rebuild at a random position, then every key queried; after every operation (or, in half of the cases, only at the end, since queries may themselves touch the store) every key of the universe, the count and the iteration are compared with a Go map; non-trivial when >=2 steps; distinct by hash of (store, history)",
		Real: []string{"topics.Store (tree, node, protobuf dump)", "subscriptions.Tree (tree, node, protobuf dump)", "wasp/format.Topic tokenizer"}, Stub: []string{"none"},
		Assume: []string{"keys are non-empty topic strings without wildcards; empty levels only as a trailing level (C01 covers matching and empty levels elsewhere)", "the only restart-like event these packages offer is the dump/load round trip"}})
}
