package h

import (
	"crypto/sha256"
	"fmt"
	"os"
	"path/filepath"
	"strings"

	"github.com/vx-labs/wasp/v4/wasp"
	"github.com/vx-labs/wasp/v4/wasp/auth"
)

// buildAuth builds the real credential store for this run from knobs/steps:
// knob auth=0: StaticHandler(first row), auth=1: FileHandler over a generated file.
// The table itself travels in the case as a step {K:"authtab", L:[user:pass:mount,...]}
// (mount may be empty = 2-field line).
func (w *world) buildAuth() wasp.AuthenticationHandler {
	var rows []string
	for _, s := range w.c.Steps {
		if s.K == "authtab" {
			rows = s.L
		}
	}
	w.authTab = nil
	for _, r := range rows {
		f := strings.SplitN(r, ":", 3)
		for len(f) < 3 {
			f = append(f, "")
		}
		m := f[2]
		if m == "" || m == "-" { // "-": a third field that is present but empty ("user:hash:")
			m = auth.DefaultMountPoint
		}
		w.authTab = append(w.authTab, authRow{f[0], f[1], m})
	}
	if w.c.knob("auth", 2) == 0 {
		u, p := "", ""
		if len(w.authTab) > 0 {
			u, p = w.authTab[0].user, w.authTab[0].pass
			w.authTab = w.authTab[:1]
			w.authTab[0].mount = auth.DefaultMountPoint
		}
		h, err := auth.StaticHandler(u, p)
		if err != nil {
			w.loadErr = err.Error()
			return &stubAuth{w}
		}
		return h
	}
	var b strings.Builder
	for _, r := range rows {
		f := strings.SplitN(r, ":", 3)
		// the file holds the SHA-256 hex of the password (what fileHandler compares against)
		line := f[0] + ":" + fmt.Sprintf("%x", sha256.Sum256([]byte(f[1])))
		if len(f) == 3 && f[2] == "-" {
			line += ":"
		} else if len(f) == 3 && f[2] != "" {
			line += ":" + f[2]
		}
		b.WriteString(line + "\n")
	}
	path := filepath.Join(w.dataDir, "users.csv")
	os.WriteFile(path, []byte(b.String()), 0600)
	var h wasp.AuthenticationHandler
	var err error
	p := catchPanic(func() { h, err = auth.FileHandler(path) })
	if p != "" {
		w.loadErr = "panic: " + p
		return &stubAuth{w}
	}
	if err != nil {
		w.loadErr = err.Error()
		return &stubAuth{w}
	}
	return h
}
