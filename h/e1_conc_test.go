package h

import (
	"fmt"
	"sort"
	"strings"
	"testing"
)

// ---------------------------------------------------------------------------------------
// C20, whole-broker variant under controlled goroutine scheduling ("conc"): several clients on
// 1-2 brokers subscribe, unsubscribe, publish and ping in the same driver turns, gossip merges
// run in goroutines of their own, and the PRNG scheduler of world_test.go (sched=1) decides the
// interleaving statement by statement. Functional oracles only (the scheduler's hand-over
// channels order everything for the race detector):
//   - operations on distinct keys all take effect: after the settle every node lists exactly the
//     subscriptions each client was last acknowledged to hold;
//   - no publish is lost or invented: a QoS 1 publish acknowledged to its publisher reaches every
//     session whose matching SUBACK had been received before the publish was sent and that did
//     not start to unsubscribe before the PUBACK came back, and never a session without a
//     matching filter (or whose UNSUBACK had arrived before the publish was sent);
//   - publishes issued after the settle reach exactly the final subscribers;
//   - nothing panics or stalls.

func genC20Conc(r *Rand, tier, profile string) *Case {
	c := &Case{Profile: "conc", Knobs: map[string]int64{"sched": 1}}
	nodes := r.PickInt([]int{1, 1, 2})
	c.Knobs["nodes"] = int64(nodes)
	nc := r.Range(2, 4)
	var ts []tstep
	t := int64(1)
	for i := 0; i < nc; i++ {
		ts = append(ts, tstep{t, Step{K: "connect", C: i, N: r.Intn(nodes), S: fmt.Sprintf("cc%d", i), U: "u", T: "p", I: 3000}})
		t += int64(r.Range(0, 3))
	}
	t += 30
	filtersOf := func(i int) []string {
		return []string{fmt.Sprintf("k/%d/#", i), "k/all", fmt.Sprintf("k/%d/x", i), "k/+/x"}
	}
	pid := map[int]int{}
	tag := 0
	rounds := r.Range(1, 3)
	if tier == "thorough" {
		rounds = r.Range(2, 5)
	}
	for round := 0; round < rounds; round++ {
		// one turn: a few requests of different clients, in the brokers at the same time
		k := r.Range(2, 4)
		perm := r.Perm(nc)
		var turn []Step
		for j := 0; j < k && j < nc; j++ {
			cl := perm[j]
			pid[cl]++
			switch r.Intn(7) {
			case 0, 1, 2:
				fs := filtersOf(cl)
				turn = append(turn, Step{K: "sub", C: cl, L: []string{fs[r.Intn(len(fs))]}, QL: []int{r.Intn(2)}, I: int64(pid[cl])})
			case 3:
				fs := filtersOf(cl)
				turn = append(turn, Step{K: "unsub", C: cl, L: []string{fs[r.Intn(len(fs))]}, I: int64(pid[cl])})
			case 4, 5:
				tag++
				turn = append(turn, Step{K: "pub", C: cl, T: r.Pick([]string{fmt.Sprintf("k/%d/x", r.Intn(nc)), "k/all"}), S: fmt.Sprintf("m%d", tag), Q: 1, I: int64(100 + pid[cl])})
			default:
				turn = append(turn, Step{K: "pkt", C: cl, S: "pingreq"})
			}
		}
		for j := range turn {
			turn[j].W = j+1 < len(turn)
			ts = append(ts, tstep{t, turn[j]})
		}
		t += int64(r.PickInt([]int{5, 40, 150, 400}))
	}
	t += 400
	ts = append(ts, tstep{t, Step{K: "settle"}})
	t += settleDur + 20
	for i := 0; i < nc; i++ {
		tag++
		ts = append(ts, tstep{t, Step{K: "pub", C: 0, T: fmt.Sprintf("k/%d/x", i), S: fmt.Sprintf("late%d", i), Q: 1, I: int64(900 + i)}})
		t += 20
	}
	ts = append(ts, tstep{t, Step{K: "pub", C: 0, T: "k/all", S: "lateall", Q: 1, I: 990}})
	ts = append(ts, tstep{t + 50, Step{K: "sleep", I: 1500}})
	c.Steps = mergeTimelines(ts)
	return c
}

type concOp struct {
	filter      string
	unsub       bool
	tx, ack     int64 // stamps
	txAt, ackAt int64 // simulated ms
}

func judgeConc(w *world) { judgeConcFor("C20")(w) }

func judgeConcFor(prop string) func(w *world) {
	return func(w *world) { judgeConcProp(w, prop) }
}

func judgeConcProp(w *world, prop string) {
	endMs := w.nowMs()
	if len(w.settles) == 0 {
		return
	}
	ids := make([]int, 0, len(w.clients))
	for id := range w.clients {
		ids = append(ids, id)
	}
	sort.Ints(ids)
	for _, id := range ids {
		if !w.clientAliveThrough(w.clients[id]) {
			return // a client lost its connection: nothing in this scenario should cause that
		}
	}
	rxStamp := func(client, epoch, typ, pid int, after int64) (int64, int64) {
		for _, ob := range w.obs {
			if ob.Rx && ob.Client == client && ob.Epoch == epoch && ob.P.Type == typ && ob.P.Pid == pid && ob.Stamp > after {
				return ob.Stamp, ob.AtMs
			}
		}
		return -1, -1
	}
	// per client, the control operations in program order
	ops := map[int][]*concOp{}
	final := map[int]map[string]bool{}
	for si, s := range w.c.Steps {
		if s.K != "sub" && s.K != "unsub" {
			continue
		}
		cl := w.clients[s.C]
		typ, ack := tSUBSCRIBE, tSUBACK
		if s.K == "unsub" {
			typ, ack = tUNSUBSCRIBE, tUNSUBACK
		}
		tx := w.txStamp(si, s.C, typ)
		if tx < 0 {
			continue
		}
		ak, akAt := rxStamp(s.C, cl.epoch, ack, int(s.I), tx)
		if ak < 0 {
			w.o.violate(prop, "control-unanswered", si, endMs, map[string]string{"op": s.K}, "client %d's %s %v (packet id %d) was never answered although its connection stayed up", s.C, s.K, s.L, s.I)
			return
		}
		if final[s.C] == nil {
			final[s.C] = map[string]bool{}
		}
		for _, f := range s.L {
			ops[s.C] = append(ops[s.C], &concOp{filter: f, unsub: s.K == "unsub", tx: tx, ack: ak, txAt: w.stepAt[si], ackAt: akAt})
			if s.K == "sub" {
				final[s.C][f] = true
			} else {
				delete(final[s.C], f)
			}
		}
	}
	// (1) the final listing is what the clients were last acknowledged to hold
	last := w.settles[len(w.settles)-1]
	for ni, l := range last.Listings {
		for _, id := range ids {
			cl := w.clients[id]
			var got []string
			for _, x := range subsOfSession(l, cl.sid) {
				f := strings.Split(x, "|")
				got = append(got, strings.TrimPrefix(f[1], "_default/"))
			}
			sort.Strings(got)
			var want []string
			for f := range final[id] {
				want = append(want, f)
			}
			sort.Strings(want)
			if strings.Join(got, " ") != strings.Join(want, " ") {
				w.o.violate(prop, "lost-or-torn-update", len(w.c.Steps), endMs, map[string]string{"more": fmt.Sprint(len(got) > len(want))},
					"after the settle node %d lists the filters %v for client %d; the acknowledged subscribe/unsubscribe history leaves %v", ni, got, id, want)
				return
			}
		}
	}
	// (2) publishes
	judged := 0
	for si, s := range w.c.Steps {
		if s.K != "pub" {
			continue
		}
		pcl := w.clients[s.C]
		ptx := w.txStamp(si, s.C, tPUBLISH)
		if ptx < 0 {
			continue
		}
		pack, packAt := rxStamp(s.C, pcl.epoch, tPUBACK, int(s.I), ptx)
		if pack < 0 {
			w.o.violate(prop, "publish-unanswered", si, endMs, nil, "client %d's QoS 1 publish %s was never acknowledged although nothing failed", s.C, s.S)
			return
		}
		settled := w.stepAt[si] >= last.AtMs
		for _, id := range ids {
			cl := w.clients[id]
			// The broker resolves the recipients when it takes the message off its log (up to a
			// poll interval after the acknowledgement), so a subscription counts as certainly held
			// only if it was acknowledged before the publish was sent and no UNSUBSCRIBE for it was
			// sent until 2 s after the PUBACK; and as possibly held if its SUBSCRIBE was sent before
			// that instant and it had not been (acknowledged as) removed before the publish.
			horizon := packAt + 2000
			must, allowed := 0, 0
			seen := map[string]bool{}
			for _, op := range ops[id] {
				f := op.filter
				if seen[f] || !refMatch(f, s.T) {
					continue
				}
				seen[f] = true
				certain, possible := false, false
				for _, o := range ops[id] {
					if o.filter != f {
						continue
					}
					if !o.unsub {
						// acknowledged before the publish was sent - or, on the publisher's own node,
						// before a publish worker took the message up: the SUBACK was written (its
						// stamp taken) before the worker started to resolve the destinations
						ds, taken := w.dispatchStamp[s.S]
						if o.ack < ptx || (taken && o.ack < ds && cl.node == pcl.node) {
							certain, possible = true, true
						} else if o.txAt <= horizon {
							possible = true
						}
					} else {
						if o.txAt <= horizon {
							certain = false
						}
						if o.ack < ptx {
							possible = false
						}
					}
				}
				if certain && cl.node != pcl.node && !settled {
					certain = false // the publisher's node may not have been told yet (C01's live variant judges that)
				}
				if certain {
					must++
				}
				if possible || certain {
					allowed++
				}
			}
			got := 0
			for _, ex := range cl.exch {
				if ex.tag == s.S {
					got++
				}
			}
			judged++
			switch {
			case got < must:
				w.o.violate(prop, "publish-lost", si, endMs, map[string]string{"racing": fmt.Sprint(allowed > must)},
					"publish %s on %q (acknowledged at %dms) reached client %d %d times; %d of its matching subscriptions had been acknowledged before the publish was sent (or, on the same node, before a publish worker took it up) and were left alone until 2 s after the PUBACK", s.S, s.T, packAt, id, got, must)
				return
			case got > allowed:
				w.o.violate(prop, "publish-invented", si, endMs, nil,
					"publish %s on %q reached client %d %d times; at most %d of its subscriptions matched it at any time between the publish and 2 s after its acknowledgement", s.S, s.T, id, got, allowed)
				return
			}
		}
	}
	w.o.Stats["conc.deliveries_judged"] += int64(judged)
	w.o.Nontrivial = judged > 0
}

// C02 under controlled scheduling: a SUBSCRIBE and matching QoS 1 publishes of another client in
// one driver turn, on one node; a publish that a worker takes up after the SUBACK was written must
// reach the subscriber.
func genC02Conc(r *Rand, tier, profile string) *Case {
	c := &Case{Profile: "conc", Knobs: map[string]int64{"sched": 1, "nodes": 1}}
	if r.Bool(0.7) {
		c.Knobs["sched_focus"] = focusKnob("wasp/packets.go")
	}
	nsub := r.Range(1, 2)
	var ts []tstep
	t := int64(1)
	for i := 0; i <= nsub; i++ {
		ts = append(ts, tstep{t, Step{K: "connect", C: i, N: 0, S: fmt.Sprintf("cc%d", i), U: "u", T: "p", I: 3000}})
		t += int64(r.Range(0, 3))
	}
	t += 30
	pid := map[int]int{}
	tag := 0
	rounds := r.Range(1, 3)
	if tier == "thorough" {
		rounds = r.Range(2, 5)
	}
	for round := 0; round < rounds; round++ {
		sub := 1 + r.Intn(nsub)
		pid[sub]++
		filters := []string{fmt.Sprintf("k/%d/#", round)}
		qos := []int{r.Intn(2)}
		if r.Bool(0.4) {
			filters = append(filters, "k/+/y")
			qos = append(qos, r.Intn(2))
		}
		turn := []Step{{K: "sub", C: sub, L: filters, QL: qos, I: int64(pid[sub])}}
		for n := r.Range(1, 3); n > 0; n-- {
			tag++
			pid[0]++
			turn = append(turn, Step{K: "pub", C: 0, T: r.Pick([]string{fmt.Sprintf("k/%d/x", round), fmt.Sprintf("k/%d/y", round)}), S: fmt.Sprintf("m%d", tag), Q: 1, I: int64(100 + pid[0])})
		}
		if r.Bool(0.3) {
			turn[0], turn[len(turn)-1] = turn[len(turn)-1], turn[0]
		}
		for j := range turn {
			turn[j].W = j+1 < len(turn)
			ts = append(ts, tstep{t, turn[j]})
		}
		t += int64(r.PickInt([]int{40, 150, 400}))
	}
	t += 400
	ts = append(ts, tstep{t, Step{K: "settle"}})
	t += settleDur + 20
	ts = append(ts, tstep{t, Step{K: "pub", C: 0, T: "k/0/x", S: "late0", Q: 1, I: 990}})
	ts = append(ts, tstep{t + 50, Step{K: "sleep", I: 1500}})
	c.Steps = mergeTimelines(ts)
	return c
}

func runC02Conc(t *testing.T, c *Case) *Outcome {
	return runE1(t, c, profileHooks{judge: judgeConcFor("C02")})
}

func init() {
	register(&Check{ID: "C02", Variant: "conc", Level: "exploration", Build: "lockstep", Gen: genC02Conc, Run: runC02Conc, QuickS: 25, ThoroughS: 300,
		Rule: "whole-broker variant under controlled goroutine scheduling (DESIGN 2.1b): one node, 1-2 subscribers and a publisher; turns in which a SUBSCRIBE (1-2 filters) and 1-3 matching QoS 1 publishes of the other client are inside the broker at the same time, every broker goroutine released by the simulator's PRNG, mostly at the statements of wasp/packets.go; a publish that a publish worker took up after the SUBACK had been written (global stamps) and that was acknowledged must reach the subscriber; non-trivial when >=1 delivery judged",
		Real: e1Real, Stub: append([]string{"goroutine scheduling inside the broker: the simulator's PRNG over parked goroutines (DESIGN 2.1b)"}, e1Stub...),
		Assume: []string{"stamps are taken from one atomic counter inside the simulated connection's Write and inside the taps dispatcher, which the publish worker calls right before it resolves destinations", "fault-free network"}})
}

func runC20Conc(t *testing.T, c *Case) *Outcome {
	return runE1(t, c, profileHooks{judge: judgeConc})
}

func init() {
	register(&Check{ID: "C20", Variant: "conc", Level: "exploration", Build: "lockstep", Gen: genC20Conc, Run: runC20Conc, QuickS: 25, ThoroughS: 400,
		Rule: "whole-broker variant under controlled goroutine scheduling: 2-4 clients on 1-2 brokers, turns of 2-4 same-instant requests (subscribe/unsubscribe on own and shared filters, QoS 1 publishes, pings), gossip merges in goroutines of their own, every broker goroutine released one statement (or a PRNG budget of statements) at a time by the simulator; after the settle each node must list exactly the acknowledged subscription history of each client, acknowledged publishes must reach every subscription acknowledged before they were sent (and none that never matched), publishes after the settle reach exactly the final subscribers; non-trivial when >=1 (publish, client) pair judged; distinct by hash of (scenario, schedule)",
		Real: e1Real, Stub: append([]string{"goroutine scheduling inside the brokers: the simulator's PRNG over parked goroutines (DESIGN 2.1b)"}, e1Stub...),
		Assume: []string{"a subscription whose SUBSCRIBE was sent but not yet acknowledged when a publish was sent (or whose UNSUBSCRIBE was on its way) may or may not receive it", "fault-free network"}})
}

// ---------------------------------------------------------------------------------------
// "sched" variants: the scenarios and oracles of other E1 checks, unchanged, executed under
// controlled goroutine scheduling (DESIGN 2.1b). The properties do not depend on how the
// brokers' goroutines interleave, so the same judges apply; what changes is that the order of
// the goroutines inside a driver turn (handlers, publish workers, RPC calls, sweeps, gossip
// merges) is drawn from the simulator's PRNG statement by statement instead of being whatever
// the Go runtime does.

// schedFocus: per property, the source files whose statements are preferred as scheduling points.
var schedFocus = map[string][]string{
	"C05": {"wasp/packets.go", "wasp/packets.go", "wasp/publish.go"},
	"C12": {"wasp/conn.go", "wasp/conn.go", "wasp/conn.go", "wasp/distributed/sessions.go"},
	"C13": {"wasp/conn.go", "wasp/nodes.go", "wasp/packets.go"},
	"C11": {"wasp/conn.go", "wasp/packets.go", "wasp/distributed/sessions.go", "wasp/distributed/subscriptions.go"},
	"C03": {"wasp/writer.go", "wasp/ack/queue.go", "wasp/packets.go"},
	"C14": {"wasp/publish.go", "wasp/packets.go"},
}

func schedGen(id string, base func(r *Rand, tier, profile string) *Case, tweak func(r *Rand, c *Case)) func(r *Rand, tier, profile string) *Case {
	return func(r *Rand, tier, profile string) *Case {
		c := base(r, tier, profile)
		if c.Knobs == nil {
			c.Knobs = map[string]int64{}
		}
		c.Knobs["sched"] = 1
		if r.Bool(0.6) {
			c.Knobs["sched_focus"] = int64(1 + r.Intn(64))        // index into the list of instrumented files
			if fs := schedFocus[id]; len(fs) > 0 && r.Bool(0.8) { // mostly where this property's requests meet
				c.Knobs["sched_focus"] = focusKnob(r.Pick(fs))
			}
		}
		if tweak != nil {
			tweak(r, c)
		}
		return c
	}
}

// sameTurn puts neighbouring requests of different clients into one driver turn, where the
// oracle of the scenario does not depend on their order (it works on stamps).
func sameTurn(kinds map[string]bool, p float64) func(r *Rand, c *Case) {
	return func(r *Rand, c *Case) {
		for i := 0; i+1 < len(c.Steps); i++ {
			a, b := &c.Steps[i], &c.Steps[i+1]
			if kinds[a.K] && kinds[b.K] && a.C != b.C && r.Bool(p) {
				a.W = true
				b.At = 0
			}
		}
	}
}

// takeoverInTurn: the earlier session of a takeover chain loses its link (or disconnects) in the
// same turn in which its successor connects.
func takeoverInTurn(r *Rand, c *Case) {
	var out []Step
	prev := -1
	for _, s := range c.Steps {
		if s.K == "connect" && s.S == "dup" {
			if prev >= 0 && r.Bool(0.4) {
				end := Step{K: "cut", C: prev, At: s.At, W: true}
				if r.Bool(0.4) {
					end = Step{K: "pkt", C: prev, S: "disconnect", At: s.At, W: true}
				}
				out = append(out, end)
				s.At = 0
			}
			prev = s.C
		}
		out = append(out, s)
	}
	c.Steps = out
}

// genC05Conc: several publishers hand in QoS 1 publishes in the same driver turn while one log
// write (or one remote node) fails: each publish is acknowledged iff its own writes succeeded,
// whatever happened to the others.
func genC05Conc(r *Rand, tier, profile string) *Case {
	c := &Case{Profile: "inbound", Knobs: map[string]int64{"manual_pubrel": 1}}
	nodes := r.PickInt([]int{1, 1, 2})
	c.Knobs["nodes"] = int64(nodes)
	var ts []tstep
	t := int64(1)
	ns := r.Range(1, 2)
	for i := 1; i <= ns; i++ {
		t += 10
		ts = append(ts, tstep{t, Step{K: "connect", C: i, N: r.Intn(nodes), S: fmt.Sprintf("s%d", i), U: "u", T: "p", I: 3000}})
		ts = append(ts, tstep{t + 5, Step{K: "sub", C: i, L: []string{"i/#"}, QL: []int{0}, I: 1}})
	}
	np := r.Range(2, 3)
	for p := 0; p < np; p++ {
		t += 10
		ts = append(ts, tstep{t, Step{K: "connect", C: 10 + p, N: r.Intn(nodes), S: fmt.Sprintf("p%d", p), U: "u", T: "p", I: 3000}})
	}
	t += 50
	ts = append(ts, tstep{t, Step{K: "settle"}})
	t += settleDur + 50
	tagN := 0
	pid := map[int]int{}
	for round := r.Range(1, 3); round > 0; round-- {
		if r.Bool(0.8) {
			ts = append(ts, tstep{t, Step{K: "appendfail", N: r.Intn(nodes), I: 1}})
			t++
		}
		k := r.Range(2, np)
		perm := r.Perm(np)
		for j := 0; j < k; j++ {
			p := 10 + perm[j]
			pid[p]++
			tagN++
			ts = append(ts, tstep{t, Step{K: "pub", C: p, T: "i/x", S: fmt.Sprintf("i%d", tagN), Q: 1, I: int64(pid[p]), W: j+1 < k}})
		}
		t += int64(r.Range(300, 1500))
	}
	ts = append(ts, tstep{t, Step{K: "sleep", I: 2500}})
	c.Steps = mergeTimelines(ts)
	return c
}

// genC12Race: a short takeover in which the predecessor's connection ends (or pings, or does
// nothing) in the very turn in which the successor's CONNECT arrives, mostly on the same node.
func genC12Race(r *Rand, tier, profile string) *Case {
	c := &Case{Profile: "takeover", Knobs: map[string]int64{}}
	nodes := r.PickInt([]int{1, 1, 2})
	c.Knobs["nodes"] = int64(nodes)
	var ts []tstep
	t := int64(1)
	ts = append(ts, tstep{t, Step{K: "connect", C: 0, N: 0, S: "witness", U: "u", T: "p", I: 3000}})
	chain := r.Range(2, 3)
	node := r.Intn(nodes)
	for i := 1; i <= chain; i++ {
		t += int64(r.Range(300, 1200))
		if r.Bool(0.25) {
			node = r.Intn(nodes)
		}
		if i > 1 {
			switch r.Intn(4) {
			case 0:
				ts = append(ts, tstep{t, Step{K: "cut", C: i - 1, W: true}})
			case 1:
				ts = append(ts, tstep{t, Step{K: "pkt", C: i - 1, S: "disconnect", W: true}})
			case 2:
				ts = append(ts, tstep{t, Step{K: "pkt", C: i - 1, S: "pingreq", W: true}})
			}
		}
		ts = append(ts, tstep{t, Step{K: "connect", C: i, N: node, S: "dup", U: "u", T: "p", I: 30, G: i > 1 && nodes > 1 && r.Bool(0.5)}})
		ts = append(ts, tstep{t + int64(r.Range(5, 100)), Step{K: "sub", C: i, L: []string{fmt.Sprintf("k/%d/#", i), "k/all"}, QL: []int{r.Intn(2), 0}, I: 1}})
	}
	t += 1500
	for i := 1; i <= chain; i++ {
		ts = append(ts, tstep{t + int64(i), Step{K: "pkt", C: i, S: "pingreq"}})
	}
	t += 300
	ts = append(ts, tstep{t, Step{K: "settle"}})
	t += settleDur + 20
	for i := 1; i <= chain; i++ {
		ts = append(ts, tstep{t, Step{K: "pub", C: 0, T: fmt.Sprintf("k/%d/z", i), S: fmt.Sprintf("late%d", i), Q: 0}})
		t += 15
	}
	ts = append(ts, tstep{t, Step{K: "pub", C: 0, T: "k/all", S: "lateall", Q: 0}})
	ts = append(ts, tstep{t + 300, Step{K: "pkt", C: chain, S: "pingreq"}})
	ts = append(ts, tstep{t + 400, Step{K: "sleep", I: 800}})
	c.Steps = mergeTimelines(ts)
	return c
}

func registerSched(id string, base func(r *Rand, tier, profile string) *Case, tweak func(r *Rand, c *Case), run func(t *testing.T, c *Case) *Outcome, quickS, thoroughS int) {
	register(&Check{ID: id, Variant: "sched", Level: "exploration", Build: "lockstep", Gen: schedGen(id, base, tweak), Run: run, QuickS: quickS, ThoroughS: thoroughS,
		Rule: "the scenarios and oracle of the property's main E1 check executed on the statement-instrumented build under controlled goroutine scheduling: every broker goroutine (handlers, publish workers, RPC calls, sweeps, gossip merges) is released by the simulator's PRNG one statement or one budget of statements at a time; distinct by hash of (scenario, schedule)",
		Real: e1Real, Stub: append([]string{"goroutine scheduling inside the brokers: the simulator's PRNG over parked goroutines (DESIGN 2.1b)"}, e1Stub...),
		Assume: []string{"same assumptions as the property's main E1 check"}})
}

func init() {
	registerSched("C03", genC03, nil, runC03, 15, 240)
	registerSched("C05", func(r *Rand, tier, profile string) *Case {
		if r.Bool(0.5) {
			return genC05Conc(r, tier, profile)
		}
		c := genC05(r, tier, profile)
		sameTurn(map[string]bool{"pub": true, "pkt": true}, 0.5)(r, c)
		return c
	}, nil, runC05, 15, 240)
	registerSched("C11", genC11, nil, runC11, 15, 240)
	registerSched("C12", func(r *Rand, tier, profile string) *Case {
		if r.Bool(0.7) {
			return genC12Race(r, tier, profile)
		}
		c := genC12(r, tier, profile)
		takeoverInTurn(r, c)
		return c
	}, nil, runC12, 25, 300)
	registerSched("C13", genC13, nil, runC13, 15, 240)
	registerSched("C14", genC14, nil, runC14, 15, 240)
}
