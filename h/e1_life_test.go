package h

import (
	"fmt"
	"sort"
	"strings"
	"testing"
)

// timeline helper: steps with absolute times -> gaps
type tstep struct {
	at int64
	s  Step
}

func mergeTimelines(ts []tstep) []Step {
	sort.SliceStable(ts, func(i, j int) bool { return ts[i].at < ts[j].at })
	var out []Step
	prev := int64(0)
	for _, x := range ts {
		s := x.s
		s.At = x.at - prev
		if s.At < 1 {
			s.At = 1
		}
		prev = x.at
		// steps with their own duration push the clock of the following ones
		if s.K == "sleep" {
			prev += s.I
		}
		if s.K == "settle" {
			prev += settleDur
		}
		out = append(out, s)
	}
	return out
}

// sessionLines returns the S| lines of a listing whose client id matches.
func sessionLines(l []string, clientID string) []string {
	var out []string
	for _, x := range l {
		f := strings.Split(x, "|")
		if f[0] == "S" && len(f) > 2 && f[2] == clientID {
			out = append(out, x)
		}
	}
	return out
}

func subsOfSession(l []string, sid string) []string {
	var out []string
	for _, x := range l {
		f := strings.Split(x, "|")
		if f[0] == "U" && len(f) > 2 && f[2] == sid {
			out = append(out, x)
		}
	}
	return out
}

// ---------------------------------------------------------------------------------------
// C11 lifecycle

type lifeInfo struct {
	client    int
	cause     string // "", disconnect, cut, close, silence, protoerr, stopnode
	causeStep int
	keepalive int64
}

func genC11(r *Rand, tier, profile string) *Case {
	c := &Case{Profile: "lifecycle", Knobs: map[string]int64{}}
	nodes := r.PickInt([]int{1, 1, 2, 3})
	c.Knobs["nodes"] = int64(nodes)
	gossipKnobs(r, c)
	if r.Bool(0.15) {
		c.Knobs["leave_spread_ms"] = 6000
	}
	if r.Bool(0.1) {
		c.Knobs["leave_base_ms"] = int64(r.PickInt([]int{100, 300, 800}))
	}
	var ts []tstep
	// witness on node 0: alive throughout, publishes at the end
	ts = append(ts, tstep{1, Step{K: "connect", C: 0, N: 0, S: "witness", U: "u", T: "p", I: 3000}})
	ts = append(ts, tstep{20, Step{K: "sub", C: 0, L: []string{"w/#"}, QL: []int{0}, I: 1}})
	ns := r.Range(1, 3)
	end := int64(0)
	stopped := false
	for i := 1; i <= ns; i++ {
		k := int64(r.PickInt([]int{1, 2, 5, 30}))
		node := r.Intn(nodes)
		t := int64(r.Range(30, 400))
		st := Step{K: "connect", C: i, N: node, S: fmt.Sprintf("life%d", i), U: "u", T: "p", I: k}
		if r.Bool(0.06) {
			st.J = 1 // never gets its CONNACK: the link dies under that write
			ts = append(ts, tstep{t, st})
			continue
		}
		if r.Bool(0.3) {
			st.L = []string{"w/will", fmt.Sprintf("will%d", i)}
		}
		ts = append(ts, tstep{t, st})
		pid := int64(1)
		// a session that lives for less than a gossip interval: its creation and its removal are
		// queued together and may reach another node in either order
		brief := r.Bool(0.25)
		if !brief && r.Bool(0.6) {
			t += int64(r.Range(5, 300))
			ts = append(ts, tstep{t, Step{K: "sub", C: i, L: []string{fmt.Sprintf("d/%d/#", i), "d/all"}, QL: []int{r.Intn(2), 0}, I: pid}})
			pid++
		}
		nact := r.Intn(4)
		if brief {
			nact = 0
		}
		for n := nact; n > 0; n-- {
			f := r.PickInt([]int{50, 90})
			t += k * 1000 * int64(f) / 100
			switch r.Intn(4) {
			case 0:
				ts = append(ts, tstep{t, Step{K: "sub", C: i, L: []string{fmt.Sprintf("e/%d", r.Intn(3))}, QL: []int{0}, I: pid}})
				pid++
			case 1:
				ts = append(ts, tstep{t, Step{K: "pub", C: i, T: "w/ping", S: fmt.Sprintf("hb%d.%d", i, n), Q: 0, I: pid}})
				pid++
			default:
				ts = append(ts, tstep{t, Step{K: "pkt", C: i, S: "pingreq"}})
			}
		}
		cause := r.Pick([]string{"", "disconnect", "cut", "close", "silence", "protoerr", "stopnode", "disconnect", "silence", "writefail"})
		if cause == "stopnode" && (node == 0 || stopped) {
			cause = "cut"
		}
		if brief {
			cause = r.Pick([]string{"disconnect", "cut", "close"})
			t += int64(r.Range(3, 150))
		} else {
			t += int64(r.Range(10, int(k*900)))
		}
		switch cause {
		case "disconnect":
			ts = append(ts, tstep{t, Step{K: "pkt", C: i, S: "disconnect"}})
		case "cut":
			ts = append(ts, tstep{t, Step{K: "cut", C: i}})
		case "close":
			ts = append(ts, tstep{t, Step{K: "close", C: i}})
		case "protoerr":
			ts = append(ts, tstep{t, Step{K: "pkt", C: i, S: "connect"}})
		case "writefail":
			// the link dies while the broker answers a request: the request has been read and
			// acted upon, its reply cannot be written
			ts = append(ts, tstep{t, Step{K: "writefail", C: i}})
			switch r.Intn(3) {
			case 0:
				ts = append(ts, tstep{t + 1, Step{K: "pkt", C: i, S: "pingreq"}})
			default:
				ts = append(ts, tstep{t + 1, Step{K: "sub", C: i, L: []string{fmt.Sprintf("d/%d/late", i), "d/all"}, QL: []int{0, 1}, I: pid}})
			}
		case "stopnode":
			ts = append(ts, tstep{t, Step{K: "stopnode", N: node}})
			stopped = true
			t += 9000
		case "silence":
			c.Knobs[fmt.Sprintf("silent%d", i)] = 1
			t += 2*k*1000 + 6000
		case "":
			// survivor: keep pinging every 0.9k until the end of the scenario; filled in below
		}
		if t > end {
			end = t
		}
	}
	// survivors ping through to the end
	var more []tstep
	byClient := map[int]int64{}
	kOf := map[int]int64{}
	term := map[int]bool{}
	for _, x := range ts {
		if x.s.K == "connect" {
			kOf[x.s.C] = x.s.I
		}
		if x.s.K != "stopnode" && x.s.K != "settle" {
			if x.at > byClient[x.s.C] {
				byClient[x.s.C] = x.at
			}
		}
		switch {
		case x.s.K == "cut", x.s.K == "close", x.s.K == "writefail", x.s.K == "pkt" && (x.s.S == "disconnect" || x.s.S == "connect"):
			term[x.s.C] = true
		}
	}
	_ = more
	end += 1500
	ts = append(ts, tstep{end, Step{K: "settle"}})
	// traffic towards every session, dead or alive
	pt := end + settleDur + 50
	for i := 1; i <= ns; i++ {
		ts = append(ts, tstep{pt, Step{K: "pub", C: 0, T: fmt.Sprintf("d/%d/x", i), S: fmt.Sprintf("late%d", i), Q: 0}})
		pt += 20
	}
	ts = append(ts, tstep{pt, Step{K: "pub", C: 0, T: "d/all", S: "lateall", Q: 0}})
	return finishLife(c, ts, kOf)
}

// finishLife inserts keep-alive pings (every 0.9k) for every client whose script has gaps longer
// than that while it is supposed to be alive, except clients whose cause of death is silence.
func finishLife(c *Case, ts []tstep, kOf map[int]int64) *Case {
	sort.SliceStable(ts, func(i, j int) bool { return ts[i].at < ts[j].at })
	last := ts[len(ts)-1].at
	type span struct{ from, to int64 }
	for cl, k := range kOf {
		var times []int64
		dead := int64(-1)
		silent := false
		for _, x := range ts {
			if x.s.C != cl || x.s.K == "stopnode" || x.s.K == "settle" {
				continue
			}
			if cl == 0 && x.s.K == "pub" && strings.HasPrefix(x.s.S, "late") {
				times = append(times, x.at)
				continue
			}
			times = append(times, x.at)
			if x.s.K == "cut" || x.s.K == "close" || x.s.K == "writefail" || (x.s.K == "pkt" && (x.s.S == "disconnect" || x.s.S == "connect")) {
				dead = x.at
			}
		}
		_ = silent
		if len(times) == 0 {
			continue
		}
		limit := last
		if dead >= 0 {
			limit = dead
		}
		// silence cause: recognised by the generator leaving a gap > 2k after the last action and
		// nothing else; such clients get no filler pings after their last scripted action.
		lastAction := times[len(times)-1]
		if dead < 0 && cl != 0 && c.knob(fmt.Sprintf("silent%d", cl), 0) == 1 {
			limit = lastAction
		}
		step := k * 900
		for i := 0; i < len(times); i++ {
			from := times[i]
			to := limit
			if i+1 < len(times) {
				to = times[i+1]
			}
			if to > limit {
				to = limit
			}
			for t := from + step; t < to; t += step {
				ts = append(ts, tstep{t, Step{K: "pkt", C: cl, S: "pingreq"}})
			}
		}
	}
	c.Steps = mergeTimelines(ts)
	return c
}

// ---------------------------------------------------------------------------------------
// C11 variant "displace": sessions ended by a newer session with the same client identifier

func genC11Displace(r *Rand, tier, profile string) *Case {
	c := &Case{Profile: "displace", Knobs: map[string]int64{}}
	nodes := r.PickInt([]int{1, 2, 2, 3})
	c.Knobs["nodes"] = int64(nodes)
	gossipKnobs(r, c)
	var ts []tstep
	t := int64(1)
	ts = append(ts, tstep{t, Step{K: "connect", C: 0, N: 0, S: "witness", U: "u", T: "p", I: 3000}})
	ts = append(ts, tstep{20, Step{K: "sub", C: 0, L: []string{"w/#"}, QL: []int{0}, I: 1}})
	chain := r.Range(2, 3)
	for i := 1; i <= chain; i++ {
		t += int64(r.Range(200, 2500))
		k := int64(r.PickInt([]int{5, 10, 30}))
		ts = append(ts, tstep{t, Step{K: "connect", C: i, N: r.Intn(nodes), S: "dup", U: "u", T: "p", I: k, G: i > 1}})
		if r.Bool(0.85) {
			ts = append(ts, tstep{t + int64(r.Range(5, 200)), Step{K: "sub", C: i, L: []string{fmt.Sprintf("d/%d/#", i), "d/all"}, QL: []int{r.Intn(2), 0}, I: 1}})
		}
		// how the displaced session learns of it (or dies on its own) later
		if i < chain {
			at := t + int64(r.Range(2600, 9000))
			switch r.Intn(5) {
			case 0:
				ts = append(ts, tstep{at, Step{K: "pkt", C: i, S: "disconnect"}})
			case 1:
				ts = append(ts, tstep{at, Step{K: "cut", C: i}})
			case 2:
				ts = append(ts, tstep{at, Step{K: "sub", C: i, L: []string{fmt.Sprintf("d/%d/more", i)}, QL: []int{0}, I: 7}})
			default: // its ordinary keep-alive traffic (filled in by finishLife) will do
			}
		}
	}
	if r.Bool(0.3) {
		// the newest session leaves again while its predecessors are still connected: at their next
		// keep-alive exchange the client identifier resolves to nothing, and they end all the same
		ts = append(ts, tstep{t + int64(r.Range(300, 3000)), Step{K: "pkt", C: chain, S: "disconnect"}})
	}
	t += 9500
	ts = append(ts, tstep{t, Step{K: "settle"}})
	t += settleDur + 20
	// every node now holds every record: the next keep-alive exchange tells a displaced session
	for i := 1; i <= chain; i++ {
		ts = append(ts, tstep{t + int64(i), Step{K: "pkt", C: i, S: "pingreq"}})
	}
	t += 4000
	ts = append(ts, tstep{t, Step{K: "settle"}})
	t += settleDur + 20
	for i := 1; i <= chain; i++ {
		ts = append(ts, tstep{t, Step{K: "pub", C: 0, T: fmt.Sprintf("d/%d/z", i), S: fmt.Sprintf("late%d", i), Q: 0}})
		t += 15
	}
	ts = append(ts, tstep{t, Step{K: "pub", C: 0, T: "d/all", S: "lateall", Q: 0}})
	ts = append(ts, tstep{t + 300, Step{K: "pkt", C: chain, S: "pingreq"}})
	kOf := map[int]int64{}
	for _, x := range ts {
		if x.s.K == "connect" && x.s.C > 0 {
			kOf[x.s.C] = x.s.I
		}
	}
	return finishLife(c, ts, kOf)
}

// judgeDisplaced: a displaced session that has ended (closed by the broker at its keep-alive
// exchange, or by its own DISCONNECT or link loss) leaves no record and no subscription on any
// node and is written nothing more; the other sessions are judged as in the main variant.
func judgeDisplaced(w *world) {
	judgeLifecycleOpts("C11", true)(w)
}

func (w *world) judgeDisplacedSessions(prop string, all []*simClient, final settleRec) map[string]bool {
	endMs := w.nowMs()
	inTransit := map[string]bool{}
	for _, cl := range all {
		if cl.connack == nil || cl.connack.RC != 0 || cl.sid == "" {
			continue
		}
		displaced := false
		for _, other := range all {
			if other != cl && other.opts.ClientID == cl.opts.ClientID && other.connectAt > cl.connectAt && other.mount == cl.mount && other.connack != nil && other.connack.RC == 0 {
				displaced = true
			}
		}
		if !displaced {
			continue
		}
		f := w.lifeFactsOf(cl)
		endedAt, how := int64(-1), ""
		switch {
		case f.cause != "" && f.cause != "silence":
			endedAt, how = f.causeAt, f.cause
		case cl.sawClose:
			endedAt, how = cl.closeAt, "closed-by-broker"
		}
		if cl.sawClose && (endedAt < 0 || cl.closeAt < endedAt) {
			endedAt, how = cl.closeAt, "closed-by-broker"
		}
		if endedAt < 0 {
			// still connected: it has not had a keep-alive exchange on a host that knew its successor
			inTransit[cl.sid] = true
			w.o.probe("displaced_still_connected_at_end")
			continue
		}
		if endedAt+2000 > final.AtMs-settleDur {
			inTransit[cl.sid] = true
			w.o.probe("end_too_close_to_final_settle")
			continue
		}
		w.o.probe("displaced_ended_" + how)
		attrs := map[string]string{"cause": "displaced", "how": how}
		for ni, l := range final.Listings {
			for _, x := range l {
				if strings.HasPrefix(x, "S|"+cl.sid+"|") {
					w.o.violate(prop, "session-record-remains", f.causeStep, endMs, attrs,
						"client %d's session %s was displaced and ended (%s at %dms) but node %d still lists %s after the final settle", cl.idx, cl.sid, how, endedAt, ni, x)
					return inTransit
				}
			}
			if subs := subsOfSession(l, cl.sid); len(subs) > 0 {
				w.o.violate(prop, "subscription-remains", f.causeStep, endMs, attrs,
					"client %d's session %s was displaced and ended (%s at %dms) but node %d still lists its subscriptions %v", cl.idx, cl.sid, how, endedAt, ni, subs)
				return inTransit
			}
		}
		if pre := w.preAfter(endedAt + 2000); pre != nil {
			w.o.probe("judged_before_anti_entropy")
			for ni, l := range pre {
				left := subsOfSession(l, cl.sid)
				for _, x := range l {
					if strings.HasPrefix(x, "S|"+cl.sid+"|") {
						left = append(left, x)
					}
				}
				if len(left) > 0 {
					w.o.violate(prop, "trace-until-anti-entropy", f.causeStep, endMs, map[string]string{"cause": "displaced", "how": how, "before_anti_entropy": "true"},
						"client %d's session %s was displaced and ended (%s at %dms); every broadcast had been delivered yet node %d still listed %v until the anti-entropy exchange", cl.idx, cl.sid, how, endedAt, ni, left)
					return inTransit
				}
			}
		}
		for _, ob := range w.obs {
			if ob.Rx && ob.Client == cl.idx && ob.Epoch == cl.epoch && ob.P.Type == tPUBLISH && ob.AtMs > endedAt+2000 {
				w.o.violate(prop, "written-after-end", f.causeStep, endMs, attrs,
					"client %d's session was displaced and ended (%s at %dms); %s was written to its connection at %dms", cl.idx, how, endedAt, ob.P, ob.AtMs)
				break
			}
		}
	}
	return inTransit
}

func runC11Displace(t *testing.T, c *Case) *Outcome {
	return runE1(t, c, profileHooks{judge: judgeDisplaced})
}

func runC11(t *testing.T, c *Case) *Outcome {
	return runE1(t, c, profileHooks{judge: judgeLifecycle("C11")})
}

// lifeFacts derives, per client, what the script did to it.
type lifeFacts struct {
	cause      string
	causeAt    int64
	causeStep  int
	k          int64
	lastTx     int64
	lastRx     int64
	sid        string
	node       int
	nodeDiedAt int64
	restart    string // "", "unnoticed", "noticed": the hosting node's process came back (same id, same data directory)
}

func (w *world) lifeFactsOf(cl *simClient) lifeFacts {
	f := lifeFacts{k: int64(cl.opts.Keepalive), node: cl.node, causeStep: -1, nodeDiedAt: -1}
	for si, s := range w.c.Steps {
		if w.stepAt[si] == 0 && si > 0 {
			continue // never executed (shrunk away or beyond the end)
		}
		if (s.K == "stopnode" || s.K == "restartnode") && s.N == cl.node && f.cause == "" && w.stepAt[si] >= cl.connectAt {
			f.cause, f.causeAt, f.causeStep = "stopnode", w.stepAt[si], si
			if s.K == "restartnode" {
				f.restart = "noticed"
				if w.restartQuiet[s.N] {
					f.restart = "unnoticed" // it was back before every peer had been told that it left
				}
			}
			continue
		}
		if s.C != cl.idx || epochAtStep(w, cl.idx, si) != cl.epoch {
			continue
		}
		if f.cause != "" {
			continue
		}
		switch {
		case s.K == "cut" && cl.downAt == w.stepAt[si]:
			f.cause, f.causeAt, f.causeStep = "cut", w.stepAt[si], si
		case s.K == "close" && cl.downAt == w.stepAt[si]:
			f.cause, f.causeAt, f.causeStep = "close", w.stepAt[si], si
		case s.K == "pkt" && s.S == "disconnect" && w.txStamp(si, cl.idx, tDISCONNECT) >= 0:
			f.cause, f.causeAt, f.causeStep = "disconnect", w.stepAt[si], si
		case s.K == "pkt" && s.S == "connect" && w.txStamp(si, cl.idx, tCONNECT) >= 0:
			f.cause, f.causeAt, f.causeStep = "protoerr", w.stepAt[si], si
		case s.K == "raw" && w.txStamp(si, cl.idx, 0) >= 0:
			f.cause, f.causeAt, f.causeStep = "protoerr", w.stepAt[si], si
		}
	}
	if cl.writeFailed && (f.cause == "" || cl.downAt < f.causeAt) {
		f.cause, f.causeAt, f.causeStep = "cut", cl.downAt, -1
	}
	// silence takes precedence when the client had already been quiet for more than twice its
	// keep-alive before the scripted cause (or there is none)
	{
		var txs []int64
		for _, ob := range w.obs {
			if ob.Client == cl.idx && ob.Epoch == cl.epoch && !ob.Rx {
				txs = append(txs, ob.AtMs)
			}
		}
		limit := w.nowMs()
		if f.cause != "" {
			limit = f.causeAt
		}
		txs = append(txs, limit)
		for i := 1; i < len(txs); i++ {
			if txs[i] > limit {
				break
			}
			if txs[i]-txs[i-1] > 2*f.k*1000 {
				f.cause, f.causeAt, f.causeStep = "silence", txs[i-1], -1
				break
			}
		}
	}
	for _, ob := range w.obs {
		if ob.Client != cl.idx || ob.Epoch != cl.epoch {
			continue
		}
		if ob.Rx {
			if ob.AtMs > f.lastRx {
				f.lastRx = ob.AtMs
			}
		} else if ob.AtMs > f.lastTx {
			f.lastTx = ob.AtMs
		}
	}
	return f
}

// epochAtStep: the epoch of client c that step si addresses (number of earlier connect steps - 1)
func epochAtStep(w *world, c, si int) int {
	e := -1
	for i := 0; i <= si && i < len(w.c.Steps); i++ {
		if w.c.Steps[i].K == "connect" && w.c.Steps[i].C == c {
			e++
		}
	}
	return e
}

func judgeLifecycle(prop string) func(w *world) { return judgeLifecycleOpts(prop, false) }

func judgeLifecycleOpts(prop string, withDisplaced bool) func(w *world) {
	return func(w *world) {
		if len(w.settles) == 0 {
			return
		}
		final := w.settles[len(w.settles)-1]
		endMs := w.nowMs()
		all := append([]*simClient(nil), w.past...)
		ids := make([]int, 0, len(w.clients))
		for id := range w.clients {
			ids = append(ids, id)
		}
		sort.Ints(ids)
		for _, id := range ids {
			all = append(all, w.clients[id])
		}
		judged := 0
		for _, cl := range all {
			if cl.connack == nil && cl.conn != nil && cl.conn.writeFailedAt() >= 0 && cl.conn.writeFailedAt()+5000 <= final.AtMs-settleDur {
				// the link died under the CONNACK: whatever the broker had set up for this connection
				// has to be gone again
				w.o.probe("connections_lost_under_connack")
				for ni, l := range final.Listings {
					if lines := sessionLines(l, cl.opts.ClientID); len(lines) > 0 {
						w.o.violate(prop, "failed-connect-leaves-session", len(w.c.Steps), endMs, map[string]string{"where": "listing"},
							"client %d's link died while the broker was writing its CONNACK (at %dms); after the final settle node %d still lists %v", cl.idx, cl.conn.writeFailedAt(), ni, lines)
						break
					}
				}
				if n := w.nodes[cl.node]; n.alive && len(w.sessionsOfClient(n, cl.opts.ClientID)) > 0 {
					w.o.violate(prop, "failed-connect-leaves-session", len(w.c.Steps), endMs, map[string]string{"where": "registry"},
						"client %d's link died while the broker was writing its CONNACK; node %d still has a session for client id %s in its registry", cl.idx, cl.node, cl.opts.ClientID)
				}
			}
			if cl.connack == nil || cl.connack.RC != 0 {
				continue
			}
			f := w.lifeFactsOf(cl)
			displaced := false
			for _, other := range all {
				if other != cl && other.opts.ClientID == cl.opts.ClientID && other.connectAt > cl.connectAt && other.mount == cl.mount {
					displaced = true
				}
			}
			bySid := w.c.Profile == "restart" && cl.sid != ""
			if displaced && f.restart != "" {
				displaced = false // ended with its node's process, before the same client id came back
			}
			if displaced && prop == "C11" {
				continue // C12's subject
			}
			judged++
			// silence: no scripted cause, but the client stopped sending for more than 2k
			if f.cause == "" {
				idle := endMs - f.lastTx
				// find the longest silent gap between client transmissions
				var txs []int64
				for _, ob := range w.obs {
					if ob.Client == cl.idx && ob.Epoch == cl.epoch && !ob.Rx {
						txs = append(txs, ob.AtMs)
					}
				}
				txs = append(txs, endMs)
				for i := 1; i < len(txs); i++ {
					if txs[i]-txs[i-1] > 2*f.k*1000 {
						f.cause, f.causeAt = "silence", txs[i-1]
						break
					}
				}
				_ = idle
			}
			attrs := func() map[string]string { return map[string]string{"cause": f.cause} }
			attrsAt := func(ni int) map[string]string {
				m := map[string]string{"cause": f.cause}
				if f.cause == "stopnode" {
					m["late_gossip"] = fmt.Sprint(w.anyLateGossip(cl.node))
				}
				if f.restart != "" {
					m["host_restarted"] = f.restart
				}
				return m
			}
			listed := map[int]int{}
			for ni, l := range final.Listings {
				listed[ni] = len(sessionLines(l, cl.opts.ClientID))
				if bySid {
					listed[ni] = 0
					for _, x := range l {
						if strings.HasPrefix(x, "S|"+cl.sid+"|") {
							listed[ni]++
						}
					}
				}
			}
			if f.cause == "" {
				// (a) no spurious end
				w.o.probe("survivors_judged")
				quiet := longestGap(w, cl, endMs)
				within := quiet <= f.k*950
				if !within {
					continue // the script itself let it idle too long somewhere; not judged as survivor
				}
				when := "later"
				if firstGap(w, cl) > 2500 {
					when = "right-after-connect"
				}
				if cl.sawClose {
					w.o.violate(prop, "spurious-end", len(w.c.Steps), endMs, map[string]string{"symptom": "closed", "idle": when},
						"client %d (keep-alive %ds) never idled more than %.1fs and committed no error, yet the broker closed its connection at %dms", cl.idx, f.k, float64(quiet)/1000, cl.closeAt)
					continue
				}
				if cl.pingResp < cl.pingsSent {
					w.o.violate(prop, "spurious-end", len(w.c.Steps), endMs, map[string]string{"symptom": "ping-unanswered", "idle": when},
						"client %d (keep-alive %ds, longest idle %.1fs) sent %d PINGREQ and got %d PINGRESP", cl.idx, f.k, float64(quiet)/1000, cl.pingsSent, cl.pingResp)
					continue
				}
				for ni, n := range listed {
					if n != 1 {
						w.o.violate(prop, "spurious-end", len(w.c.Steps), endMs, map[string]string{"symptom": "not-listed", "idle": when},
							"client %d is alive and within its keep-alive but node %d lists %d session records for it after the final settle", cl.idx, ni, n)
						break
					}
				}
				continue
			}
			w.o.probe("ended_" + f.cause)
			// (b) on end: connection closed by the broker within the bound
			if f.cause != "stopnode" {
				bound := int64(1500)
				ref := f.causeAt
				if f.cause == "silence" {
					ref = f.causeAt
					if f.lastRx > ref {
						ref = f.lastRx
					}
					bound = 2*f.k*1000 + 5000
				}
				if ref+bound < endMs {
					if !cl.sawClose {
						w.o.violate(prop, "connection-left-open", f.causeStep, endMs, attrs(),
							"client %d's session ended by %s at %dms; %dms later the broker still has not closed the connection", cl.idx, f.cause, f.causeAt, endMs-ref)
					} else if cl.closeAt > ref+bound {
						w.o.violate(prop, "connection-closed-late", f.causeStep, endMs, attrs(),
							"client %d's session ended by %s at %dms; the broker closed the connection at %dms (bound %dms)", cl.idx, f.cause, f.causeAt, cl.closeAt, bound)
					}
				}
			}
			// no trace after the final settle, provided the end was due before that settle began
			goneBy := f.causeAt + 2000
			switch f.cause {
			case "silence":
				goneBy = f.causeAt + 2*f.k*1000 + 5000
				if f.lastRx > f.causeAt {
					goneBy = f.lastRx + 2*f.k*1000 + 5000
				}
			case "stopnode":
				goneBy = f.causeAt + 8000 + 3000 + 1000 // slowest leave notification + wasp's own 3 s delay
			}
			if goneBy > final.AtMs-settleDur {
				w.o.probe("end_too_close_to_final_settle")
				continue
			}
			for ni, n := range listed {
				if n != 0 {
					w.o.violate(prop, "session-record-remains", f.causeStep, endMs, attrsAt(ni),
						"client %d's session ended by %s at %dms but node %d still lists %v after the final settle", cl.idx, f.cause, f.causeAt, ni, sessionLines(final.Listings[ni], cl.opts.ClientID))
					break
				}
			}
			// the same before anti-entropy: the broadcasts of the teardown alone must do it
			if pre := w.preAfter(goneBy); pre != nil && cl.sid != "" && !displaced {
				w.o.probe("judged_before_anti_entropy")
				for ni, l := range pre {
					left := subsOfSession(l, cl.sid)
					for _, x := range l {
						if strings.HasPrefix(x, "S|"+cl.sid+"|") {
							left = append(left, x)
						}
					}
					if len(left) > 0 {
						m := attrsAt(ni)
						m["before_anti_entropy"] = "true"
						w.o.violate(prop, "trace-until-anti-entropy", f.causeStep, endMs, m,
							"client %d's session %s ended by %s at %dms; every broadcast had been delivered (no loss, no datagram under way) yet node %d still listed %v until the anti-entropy exchange", cl.idx, cl.sid, f.cause, f.causeAt, ni, left)
						break
					}
				}
			}
			if cl.sid != "" {
				for ni, l := range final.Listings {
					if subs := subsOfSession(l, cl.sid); len(subs) > 0 {
						w.o.violate(prop, "subscription-remains", f.causeStep, endMs, attrsAt(ni),
							"client %d's session %s ended by %s but node %d still lists its subscriptions %v", cl.idx, cl.sid, f.cause, ni, subs)
						break
					}
				}
			}
			// nothing published afterwards is written to it
			grace := f.causeAt + 2000
			if f.cause == "silence" {
				grace = f.causeAt + 2*f.k*1000 + 5000
			}
			for _, ob := range w.obs {
				if ob.Rx && ob.Client == cl.idx && ob.Epoch == cl.epoch && ob.P.Type == tPUBLISH && ob.AtMs > grace && !strings.HasPrefix(tagOf(ob.P.Payload), "will") {
					w.o.violate(prop, "written-after-end", f.causeStep, endMs, attrs(),
						"client %d's session ended by %s at %dms; %s was written to its connection at %dms", cl.idx, f.cause, f.causeAt, ob.P, ob.AtMs)
					break
				}
			}
		}
		var exempt map[string]bool
		if withDisplaced {
			exempt = w.judgeDisplacedSessions(prop, all, final)
		}
		judgeQuiescence(w, prop, final, exempt)
		w.o.Stats["sessions_judged"] += int64(judged)
		w.o.Nontrivial = judged >= 2
	}
}

// judgeQuiescence: (c) every listed subscription belongs to a listed session connected on the node
// it names. exempt names sessions that are legitimately in transit at the end of the run (displaced
// but not yet told so).
func judgeQuiescence(w *world, prop string, final settleRec, exempt map[string]bool) {
	endMs := w.nowMs()
	for ni, l := range final.Listings {
		sessions := map[string]string{}
		for _, x := range l {
			f := strings.Split(x, "|")
			if f[0] == "S" {
				sessions[f[1]] = f[3]
			}
		}
		for _, x := range l {
			f := strings.Split(x, "|")
			if f[0] != "U" {
				continue
			}
			peer, ok := sessions[f[2]]
			if !ok {
				late := false
				for _, n := range w.nodes {
					if fmt.Sprint(n.id) == f[3] && w.anyLateGossip(n.idx) {
						late = true
					}
				}
				m := map[string]string{"late_gossip": fmt.Sprint(late)}
				for _, n := range w.nodes {
					if _, back := w.restartAt[n.idx]; back && fmt.Sprint(n.id) == f[3] {
						m["host_restarted"] = "noticed"
						if w.restartQuiet[n.idx] {
							m["host_restarted"] = "unnoticed"
						}
					}
				}
				w.o.violate(prop, "orphan-subscription", len(w.c.Steps), endMs, m, "node %d lists subscription %s whose session is not listed", ni, x)
				break
			}
			if peer != f[3] {
				w.o.violate(prop, "subscription-wrong-peer", len(w.c.Steps), endMs, nil, "node %d lists subscription %s but the session is recorded on peer %s", ni, x, peer)
				break
			}
			host := -1
			for _, n := range w.nodes {
				if fmt.Sprint(n.id) == f[3] {
					host = n.idx
				}
			}
			if reg, ok := final.Registry[host]; host >= 0 && ok && !reg[f[2]] {
				m := map[string]string{"late_gossip": fmt.Sprint(w.anyLateGossip(host))}
				if _, back := w.restartAt[host]; back {
					m["host_restarted"] = "noticed"
					if w.restartQuiet[host] {
						m["host_restarted"] = "unnoticed"
					}
				}
				w.o.violate(prop, "subscription-of-unconnected-session", len(w.c.Steps), endMs, m, "node %d lists subscription %s but node %d has no such session in its registry", ni, x, host)
				break
			}
		}
	}
}

// preAfter: the pre-anti-entropy listings of the first settle that began at or after t (nil if
// that settle could not vouch for "every broadcast delivered").
func (w *world) preAfter(t int64) map[int][]string {
	for i := range w.settles {
		if w.settles[i].AtMs-settleDur+100 >= t {
			return w.settles[i].Pre
		}
	}
	return nil
}

func longestGap(w *world, cl *simClient, endMs int64) int64 {
	var txs []int64
	for _, ob := range w.obs {
		if ob.Client == cl.idx && ob.Epoch == cl.epoch && !ob.Rx {
			txs = append(txs, ob.AtMs)
		}
	}
	txs = append(txs, endMs)
	g := int64(0)
	for i := 1; i < len(txs); i++ {
		if txs[i]-txs[i-1] > g {
			g = txs[i] - txs[i-1]
		}
	}
	return g
}

// firstGap: idle time right after CONNECT (before the next client transmission)
func firstGap(w *world, cl *simClient) int64 {
	var txs []int64
	for _, ob := range w.obs {
		if ob.Client == cl.idx && ob.Epoch == cl.epoch && !ob.Rx {
			txs = append(txs, ob.AtMs)
		}
	}
	if len(txs) >= 2 {
		return txs[1] - txs[0]
	}
	return w.nowMs() - cl.connectAt
}

// ---------------------------------------------------------------------------------------
// C11 variant "restart": the hosting node's process dies and is started again from its data
// directory (same node id); its sessions ended with it

func genC11Restart(r *Rand, tier, profile string) *Case {
	c := &Case{Profile: "restart", Knobs: map[string]int64{}}
	nodes := r.PickInt([]int{2, 2, 3})
	c.Knobs["nodes"] = int64(nodes)
	gossipKnobs(r, c)
	var ts []tstep
	ts = append(ts, tstep{1, Step{K: "connect", C: 0, N: 0, S: "witness", U: "u", T: "p", I: 3000}})
	ts = append(ts, tstep{20, Step{K: "sub", C: 0, L: []string{"w/#"}, QL: []int{0}, I: 1}})
	rn := 1 + r.Intn(nodes-1)
	ns := r.Range(1, 3)
	kOf := map[int]int64{}
	onRn := map[int]bool{}
	t := int64(30)
	for i := 1; i <= ns; i++ {
		k := int64(r.PickInt([]int{5, 30}))
		node := rn
		if r.Bool(0.3) {
			node = r.Intn(nodes)
		}
		onRn[i] = node == rn
		kOf[i] = k
		t += int64(r.Range(20, 300))
		st := Step{K: "connect", C: i, N: node, S: fmt.Sprintf("life%d", i), U: "u", T: "p", I: k}
		if r.Bool(0.3) {
			st.L = []string{"w/will", fmt.Sprintf("will%d", i)}
		}
		ts = append(ts, tstep{t, st})
		if r.Bool(0.8) {
			ts = append(ts, tstep{t + int64(r.Range(5, 200)), Step{K: "sub", C: i, L: []string{fmt.Sprintf("d/%d/#", i), "d/all"}, QL: []int{r.Intn(2), 0}, I: 1}})
		}
	}
	// the records have (mostly) spread when the process dies
	t += int64(r.Range(300, 4000))
	quiet := r.Bool(0.5)
	down := int64(r.Range(50, 1500))
	if !quiet {
		down = int64(r.Range(2000, 16000))
	}
	soon := false
	if !quiet && r.Bool(0.4) {
		// fast failure detection and a process that is back right after it: clients reconnect while
		// the survivors' grace period for the lost sessions is still running
		c.Knobs["leave_base_ms"] = int64(r.PickInt([]int{300, 500, 800}))
		c.Knobs["leave_spread_ms"] = 300
		down = c.Knobs["leave_base_ms"] + 300 + int64(r.Range(20, 900))
		soon = true
	}
	ts = append(ts, tstep{t, Step{K: "restartnode", N: rn, I: down, G: quiet}})
	up := t + down
	t = up
	// some of the clients that lost their connection come back, to the restarted node or elsewhere,
	// under their old client identifier or a new one
	for i := 1; i <= ns; i++ {
		if !onRn[i] || r.Bool(0.5) {
			continue
		}
		at := up + int64(r.Range(20, 5000))
		if soon {
			at = up + int64(r.Range(20, 2000))
		}
		node := rn
		if r.Bool(0.3) {
			node = r.Intn(nodes)
		}
		id := fmt.Sprintf("life%d", i)
		if r.Bool(0.4) {
			id += "b"
		}
		ts = append(ts, tstep{at, Step{K: "connect", C: i, N: node, S: id, U: "u", T: "p", I: kOf[i]}})
		if r.Bool(0.7) {
			ts = append(ts, tstep{at + int64(r.Range(5, 200)), Step{K: "sub", C: i, L: []string{fmt.Sprintf("d/%d/#", i), "d/all"}, QL: []int{0, 0}, I: 1}})
		}
		if at > t {
			t = at
		}
	}
	t += 16000 // the slowest leave notification, wasp's own 3 s grace period, and some more
	ts = append(ts, tstep{t, Step{K: "settle"}})
	pt := t + settleDur + 50
	for i := 1; i <= ns; i++ {
		ts = append(ts, tstep{pt, Step{K: "pub", C: 0, T: fmt.Sprintf("d/%d/x", i), S: fmt.Sprintf("late%d", i), Q: 0}})
		pt += 20
	}
	ts = append(ts, tstep{pt, Step{K: "pub", C: 0, T: "d/all", S: "lateall", Q: 0}})
	ts = append(ts, tstep{pt + 2500, Step{K: "settle"}})
	return finishLife(c, ts, kOf)
}

func runC11Restart(t *testing.T, c *Case) *Outcome {
	return runE1(t, c, profileHooks{judge: judgeLifecycle("C11")})
}

func init() {
	register(&Check{ID: "C11", Variant: "restart", Level: "exploration", Build: "maporder", Gen: genC11Restart, Run: runC11Restart, QuickS: 15, ThoroughS: 240,
		Rule: "variant for the cause 'failure of the hosting node' when the node comes back: 2-3 nodes, 1-3 sessions (some subscribed, some with wills) mostly on the node whose process dies and is started again from its data directory (same node id; message log and consumer offset survive, sessions and replicated state do not) 50 ms - 16 s later, either before any peer's failure detector noticed or after some or all of them were notified; it rejoins with a full-state exchange; some clients reconnect there or elsewhere under the old or a new client identifier; gossip faults until the settle; same judges as the main check (sessions that ended with the process leave no record or subscription anywhere, survivors and newcomers are left alone, quiescence invariant)",
		Real: e1Real, Stub: e1Stub,
		Assume: []string{"a process restart keeps the node id (cmd/wasp loadID reads it from the data directory)", "a leave notification that is due after the process is back is not delivered (memberlist refutes the suspicion)"}})
	register(&Check{ID: "C11", Variant: "displace", Level: "exploration", Build: "maporder", Gen: genC11Displace, Run: runC11Displace, QuickS: 15, ThoroughS: 240,
		Rule: "variant for the cause 'displaced by a newer session': chains of 2-3 connections sharing a client identifier over 1-3 nodes with gossip faults, the older ones subscribed; after an anti-entropy round every displaced session has a keep-alive exchange, then a second settle; a displaced session that has ended (closed by the broker, DISCONNECT or link loss) leaves no record or subscription anywhere and is written nothing more; quiescence invariant over the final listings",
		Real: e1Real, Stub: e1Stub,
		Assume: []string{"a displaced session still connected at the end (its host never held the successor's record at one of its keep-alive exchanges) is not judged and its subscriptions are exempt from the quiescence invariant"}})
	register(&Check{ID: "C11", Level: "exploration", Build: "maporder", Gen: genC11, Run: runC11, QuickS: 30, ThoroughS: 480,
		Rule: "a case = 1-3 nodes, a long-lived witness and 1-3 sessions with keep-alive 1/2/5/30 s running scripts of subscribe/publish/ping separated by idle periods of 0.5k or 0.9k (also right after CONNECT), ending by DISCONNECT, link cut, client close, silence > 2k, second CONNECT, hosting-node stop, or not at all; gossip drop/dup/delay until the settle; then traffic towards every session; non-trivial when >=2 sessions judged; distinct by hash of the scenario",
		Real: e1Real, Stub: e1Stub,
		Assume: []string{"keep-alive 0 (disabled) is not generated", "the broker's allowance is taken as 2x keep-alive; a silent session must be closed within 2k+5 s of the last traffic in either direction", "after DISCONNECT, protocol error or connection loss the broker must close its side within 1.5 s", "RPC black holes are excluded from this profile"}})
}

// anyLateGossip: some survivor received a datagram from the dead node after it had been told
// that the node left.
func (w *world) anyLateGossip(dead int) bool {
	for k, v := range w.lateGossip {
		if v && k[1] == dead {
			return true
		}
	}
	return false
}
