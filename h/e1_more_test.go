package h

import (
	"fmt"
	"sort"
	"strings"
	"testing"
)

// ---------------------------------------------------------------------------------------
// C12 takeover: one live session per client identifier

func genC12(r *Rand, tier, profile string) *Case {
	c := &Case{Profile: "takeover", Knobs: map[string]int64{}}
	nodes := r.PickInt([]int{1, 2, 2, 3})
	c.Knobs["nodes"] = int64(nodes)
	gossipKnobs(r, c)
	var ts []tstep
	t := int64(1)
	ts = append(ts, tstep{t, Step{K: "connect", C: 0, N: 0, S: "witness", U: "u", T: "p", I: 3000}})
	chain := r.Range(2, 4)
	for i := 1; i <= chain; i++ {
		t += int64(r.Range(200, 2500))
		k := int64(r.PickInt([]int{5, 10, 30}))
		node := r.Intn(nodes)
		ts = append(ts, tstep{t, Step{K: "connect", C: i, N: node, S: "dup", U: "u", T: "p", I: k, G: i > 1 && r.Bool(0.7)}})
		ts = append(ts, tstep{t + int64(r.Range(5, 200)), Step{K: "sub", C: i, L: []string{fmt.Sprintf("k/%d/#", i), "k/all"}, QL: []int{r.Intn(2), 0}, I: 1}})
		// what the session does later, possibly after it has been displaced
		for n := r.Intn(4); n > 0; n-- {
			at := t + int64(r.Range(300, 9000))
			switch r.Intn(5) {
			case 0:
				ts = append(ts, tstep{at, Step{K: "sub", C: i, L: []string{fmt.Sprintf("k/x%d", r.Intn(3))}, QL: []int{0}, I: int64(10 + n)}})
			case 1:
				ts = append(ts, tstep{at, Step{K: "pkt", C: i, S: "disconnect"}})
			case 2:
				ts = append(ts, tstep{at, Step{K: "cut", C: i}})
			default:
				ts = append(ts, tstep{at, Step{K: "pkt", C: i, S: "pingreq"}})
			}
		}
	}
	t += 9500
	// keep the newest alive, make every displaced one ping once more
	for i := 1; i <= chain; i++ {
		ts = append(ts, tstep{t + int64(i), Step{K: "pkt", C: i, S: "pingreq"}})
	}
	t += 500
	ts = append(ts, tstep{t, Step{K: "settle"}})
	t += settleDur + 20
	for i := 1; i <= chain; i++ {
		ts = append(ts, tstep{t, Step{K: "pub", C: 0, T: fmt.Sprintf("k/%d/z", i), S: fmt.Sprintf("late%d", i), Q: 0}})
		t += 15
	}
	ts = append(ts, tstep{t, Step{K: "pub", C: 0, T: "k/all", S: "lateall", Q: 0}})
	ts = append(ts, tstep{t + 300, Step{K: "pkt", C: chain, S: "pingreq"}})
	kOf := map[int]int64{}
	for _, x := range ts {
		if x.s.K == "connect" && x.s.C > 0 {
			kOf[x.s.C] = x.s.I
		}
	}
	return finishLife(c, ts, kOf)
}

func judgeTakeover(w *world) {
	endMs := w.nowMs()
	if len(w.settles) == 0 {
		return
	}
	final := w.settles[len(w.settles)-1]
	// the chain in connection order
	var chain []*simClient
	for _, cl := range w.clients {
		if cl.opts.ClientID == "dup" {
			chain = append(chain, cl)
		}
	}
	for _, cl := range w.past {
		if cl.opts.ClientID == "dup" {
			chain = append(chain, cl)
		}
	}
	sort.Slice(chain, func(i, j int) bool { return chain[i].connectAt < chain[j].connectAt })
	if len(chain) < 2 {
		return
	}
	for i, cl := range chain {
		if cl.connack == nil || cl.connack.RC != 0 {
			if i > 0 {
				w.o.violate("C12", "new-connect-refused", len(w.c.Steps), endMs, nil, "connection %d of the chain (client %d on node %d) was not accepted: %v", i, cl.idx, cl.node, cl.connack)
			}
			return
		}
	}
	newest := chain[len(chain)-1]
	nf := w.lifeFactsOf(newest)
	newestAlive := nf.cause == "" && longestGap(w, newest, endMs) <= nf.k*950
	// every node resolves the id to the newest session
	// without the proviso (the accepting node had not heard of the earlier session) nobody removes
	// the earlier record before that session's own teardown: then only the resolution is judged
	proviso := true
	first := true
	for _, s := range w.c.Steps {
		if s.K == "connect" && s.S == "dup" {
			if !first && !s.G {
				proviso = false
			}
			first = false
		}
	}
	if newestAlive {
		for _, n := range w.nodes {
			if !n.alive {
				continue
			}
			md, err := n.dstate.SessionMetadatas().ByClientID("dup", newest.mount)
			if err != nil || md.SessionID != newest.sid {
				w.o.violate("C12", "not-resolved-to-newest", len(w.c.Steps), endMs, map[string]string{"by": "ByClientID"},
					"at the end node %d resolves client id dup to %q (%v); the newest session is %s (client %d on node %d)", n.idx, md.SessionID, err, newest.sid, newest.idx, newest.node)
				break
			}
		}
		for ni, l := range final.Listings {
			lines := sessionLines(l, "dup")
			if !proviso {
				keep := lines[:0:0]
				for _, x := range lines {
					if strings.HasPrefix(x, "S|"+newest.sid+"|") {
						keep = append(keep, x)
					}
				}
				lines = keep
			}
			if len(lines) != 1 || !strings.Contains(lines[0], "|"+newest.sid+"|") && !strings.HasPrefix(lines[0], "S|"+newest.sid+"|") {
				w.o.violate("C12", "not-resolved-to-newest", len(w.c.Steps), endMs, map[string]string{"records": fmt.Sprint(len(lines))},
					"after the final settle node %d lists %v for client id dup; the newest session is %s (client %d on node %d)", ni, lines, newest.sid, newest.idx, newest.node)
				break
			}
			// its subscriptions are intact
			subs := subsOfSession(l, newest.sid)
			distinct := map[string]bool{}
			for si, s := range w.c.Steps {
				if s.K == "sub" && s.C == newest.idx && w.txStamp(si, s.C, tSUBSCRIBE) >= 0 {
					if ok, _ := w.ackSeen(s.C, newest.epoch, tSUBACK, int(s.I), w.txStamp(si, s.C, tSUBSCRIBE)); ok {
						for _, f := range s.L {
							distinct[f] = true
						}
					}
				}
			}
			want := len(distinct)
			if len(subs) != want {
				w.o.violate("C12", "newest-lost-subscriptions", len(w.c.Steps), endMs, nil, "node %d lists %d subscriptions of the newest session %s, it made %d: %v", ni, len(subs), newest.sid, want, subs)
				break
			}
		}
		// it is still served
		if newest.sawClose {
			w.o.violate("C12", "newest-closed", len(w.c.Steps), endMs, nil, "the newest session (client %d) was closed by the broker at %dms", newest.idx, newest.closeAt)
		} else if newest.pingResp < newest.pingsSent {
			w.o.violate("C12", "newest-not-served", len(w.c.Steps), endMs, nil, "the newest session sent %d PINGREQ and got %d PINGRESP", newest.pingsSent, newest.pingResp)
		}
		got := deliveries(newest)
		if got["lateall"] != 1 || got[fmt.Sprintf("late%d", newest.idx)] != 1 {
			w.o.violate("C12", "newest-misses-publishes", len(w.c.Steps), endMs, nil, "the newest session (client %d) received %v of the publishes issued after the settle, want one of lateall and one of late%d", newest.idx, got, newest.idx)
		}
		w.o.probe("chains_with_live_newest")
	}
	// displaced sessions: not served after their host has merged the successor's record
	for i := 0; i+1 < len(chain); i++ {
		old, succ := chain[i], chain[i+1]
		host := w.nodes[old.node]
		for _, ob := range w.obs {
			if ob.Rx || ob.Client != old.idx || ob.Epoch != old.epoch || ob.P.Type != tPINGREQ {
				continue
			}
			knew, ok := w.pingKnow[ob.Stamp]
			if !ok || !knew.newKnown {
				continue
			}
			w.o.probe("pings_after_host_knew_successor")
			if knew.oldLive {
				w.o.probe("pings_on_host_holding_both_records_live")
				if succ.connectAt/1000 == old.connectAt/1000 {
					w.o.probe("pings_on_host_holding_both_records_live_connected_same_second")
				}
			}
			// answered?
			answered := false
			for _, rx := range w.obs {
				if rx.Rx && rx.Client == old.idx && rx.Epoch == old.epoch && rx.P.Type == tPINGRESP && rx.Stamp > ob.Stamp && rx.AtMs <= ob.AtMs+1000 {
					answered = true
				}
			}
			if answered {
				kind := "displaced-session-served"
				if knew.oldLive {
					kind = "takeover-ambiguous"
				}
				w.o.violate("C12", kind, ob.Step, endMs, map[string]string{"same_node": fmt.Sprint(old.node == succ.node)},
					"client %d (displaced by client %d) got a PINGRESP at %dms although its hosting node %d already held the successor's record (old record still live there: %v)", old.idx, succ.idx, ob.AtMs, host.idx, knew.oldLive)
			}
			break
		}
		// once it has had its keep-alive exchange on a host that knew the successor, nothing more
		// is delivered to a displaced session
		toldAt := int64(-1)
		for _, ob := range w.obs {
			if !ob.Rx && ob.Client == old.idx && ob.Epoch == old.epoch && ob.P.Type == tPINGREQ {
				if k, ok := w.pingKnow[ob.Stamp]; ok && k.newKnown {
					toldAt = ob.AtMs
					break
				}
			}
		}
		if toldAt >= 0 && toldAt+2000 < endMs && (old.downAt < 0 || old.downAt > toldAt+2000) && (old.disconnAt < 0 || old.disconnAt > toldAt+2000) {
			// that exchange ended the displaced session: the broker closes its connection (the
			// client is told, instead of talking to a socket nobody reads)
			w.o.probe("displaced_sessions_ended_at_keepalive")
			if !old.sawClose || old.closeAt > toldAt+1500 {
				w.o.violate("C12", "displaced-connection-left-open", len(w.c.Steps), endMs, map[string]string{"same_node": fmt.Sprint(old.node == succ.node)},
					"client %d was displaced by client %d and had its keep-alive exchange at %dms on a host that knew the successor; the broker has not closed its connection within 1.5 s (closed: %v at %dms)", old.idx, succ.idx, toldAt, old.sawClose, old.closeAt)
			}
		}
		if toldAt >= 0 {
			for _, ex := range old.exch {
				if ex.firstAt > toldAt+1000 {
					w.o.violate("C12", "displaced-session-receives", len(w.c.Steps), endMs, nil, "displaced client %d received %s at %dms, after its keep-alive exchange at %dms on a host that knew its successor", old.idx, ex.tag, ex.firstAt, toldAt)
					break
				}
			}
		}
	}
	w.o.Nontrivial = true
}

type pingKnowledge struct{ newKnown, oldLive bool }

func runC12(t *testing.T, c *Case) *Outcome {
	return runE1(t, c, profileHooks{judge: judgeTakeover})
}

// ---------------------------------------------------------------------------------------
// C13 wills

func genC13(r *Rand, tier, profile string) *Case {
	c := &Case{Profile: "wills", Knobs: map[string]int64{}}
	nodes := r.PickInt([]int{1, 1, 2, 3})
	c.Knobs["nodes"] = int64(nodes)
	gossipKnobs(r, c)
	if r.Bool(0.15) {
		c.Knobs["leave_spread_ms"] = 6000
	}
	// gossip must have carried the dying session's record (with its will) before a node failure
	var ts []tstep
	t := int64(1)
	willTopic := r.Pick([]string{"w", "w/a", "w/a/b"})
	nw := r.Range(1, 4)
	for i := 1; i <= nw; i++ {
		f := r.Pick([]string{"w/#", "#", willTopic, "w/+", "z/#", "+/a"})
		user, pass := "u", "p"
		if i == nw && nw > 1 && r.Bool(0.5) {
			user, pass = "ua", "pa" // a watcher in another mount point
			f = "#"
		}
		ts = append(ts, tstep{t, Step{K: "connect", C: i, N: r.Intn(nodes), S: fmt.Sprintf("watch%d", i), U: user, T: pass, I: 3000}})
		ts = append(ts, tstep{t + 4, Step{K: "sub", C: i, L: []string{f}, QL: []int{r.Intn(3)}, I: 1}})
		t += 11
	}
	k := int64(r.PickInt([]int{1, 2, 5}))
	dnode := r.Intn(nodes)
	t += 20
	willPayload := "will1"
	if r.Bool(0.12) {
		willPayload = "" // a zero-length will message is a will (with retain: "clear my status when I die")
	}
	ts = append(ts, tstep{t, Step{K: "connect", C: 20, N: dnode, S: "dying", U: "u", T: "p", I: k, L: []string{willTopic, willPayload}, Q: r.Intn(3), F: r.Bool(0.3)}})
	brief := nodes > 1 && r.Bool(0.15)
	cause := r.Pick([]string{"disconnect", "cut", "close", "silence", "protoerr", "stopnode", "cut", "silence"})
	if brief {
		// a session that lives for less than a gossip interval: its creation and its removal are
		// queued together and may reach another node in either order, or only one of them
		cause = "disconnect"
		t += int64(r.Range(3, 150))
	} else {
		t += 30
		ts = append(ts, tstep{t, Step{K: "settle"}})
		t += settleDur + int64(r.Range(10, int(k*800)))
	}
	if cause == "stopnode" && nodes == 1 {
		cause = "close"
	}
	switch cause {
	case "disconnect":
		ts = append(ts, tstep{t, Step{K: "pkt", C: 20, S: "disconnect"}})
	case "cut":
		ts = append(ts, tstep{t, Step{K: "cut", C: 20}})
	case "close":
		ts = append(ts, tstep{t, Step{K: "close", C: 20}})
	case "protoerr":
		ts = append(ts, tstep{t, Step{K: "pkt", C: 20, S: "connect"}})
	case "stopnode":
		ts = append(ts, tstep{t, Step{K: "stopnode", N: dnode}})
		t += 9000
	case "silence":
		c.Knobs["silent20"] = 1
		t += 2*k*1000 + 6000
	}
	if nodes > 1 && cause != "stopnode" && (brief || r.Bool(0.3)) {
		// the hosting node fails some time after the session has ended: shortly (the removal of the
		// record may not have left the node yet) or long after (it has had every chance to spread)
		gap := int64(r.Range(20, 400))
		if r.Bool(0.6) {
			gap = int64(r.Range(1500, 8000))
		}
		t += gap
		ts = append(ts, tstep{t, Step{K: "stopnode", N: dnode}})
		t += 9000
	}
	t += 4000
	ts = append(ts, tstep{t, Step{K: "sleep", I: 10000}})
	kOf := map[int]int64{20: k}
	return finishLife(c, ts, kOf)
}

// C13 variant "restart": the hosting node's process dies and is started again (same node id)
func genC13Restart(r *Rand, tier, profile string) *Case {
	c := &Case{Profile: "wills-restart", Knobs: map[string]int64{}}
	nodes := r.PickInt([]int{2, 2, 3})
	c.Knobs["nodes"] = int64(nodes)
	gossipKnobs(r, c)
	var ts []tstep
	t := int64(1)
	willTopic := r.Pick([]string{"w", "w/a", "w/a/b"})
	nw := r.Range(1, 4)
	dnode := r.Intn(nodes)
	for i := 1; i <= nw; i++ {
		f := r.Pick([]string{"w/#", "#", willTopic, "w/+", "z/#"})
		wn := r.Intn(nodes)
		if r.Bool(0.6) {
			wn = (dnode + 1 + r.Intn(nodes-1)) % nodes // mostly on nodes that stay up
		}
		ts = append(ts, tstep{t, Step{K: "connect", C: i, N: wn, S: fmt.Sprintf("watch%d", i), U: "u", T: "p", I: 3000}})
		ts = append(ts, tstep{t + 4, Step{K: "sub", C: i, L: []string{f}, QL: []int{r.Intn(3)}, I: 1}})
		t += 11
	}
	k := int64(r.PickInt([]int{5, 30}))
	t += 20
	ts = append(ts, tstep{t, Step{K: "connect", C: 20, N: dnode, S: "dying", U: "u", T: "p", I: k, L: []string{willTopic, "will1"}, Q: r.Intn(3), F: r.Bool(0.3)}})
	t += 30
	ts = append(ts, tstep{t, Step{K: "settle"}})
	t += settleDur + int64(r.Range(10, int(k*800)))
	quiet := r.Bool(0.4)
	down := int64(r.Range(50, 1500))
	if !quiet {
		down = int64(r.Range(2000, 16000))
		if r.Bool(0.4) {
			c.Knobs["leave_base_ms"] = int64(r.PickInt([]int{300, 500, 800}))
			c.Knobs["leave_spread_ms"] = 300
			down = c.Knobs["leave_base_ms"] + 300 + int64(r.Range(20, 900))
		}
	}
	ts = append(ts, tstep{t, Step{K: "restartnode", N: dnode, I: down, G: quiet}})
	kOf := map[int]int64{20: k}
	if r.Bool(0.5) {
		// another session with a will connects to the node soon after its return, keeps pinging,
		// and loses its link several seconds later
		at := t + down + int64(r.Range(20, 2000))
		ts = append(ts, tstep{at, Step{K: "connect", C: 21, N: dnode, S: "dying2", U: "u", T: "p", I: 5, L: []string{willTopic, "will2"}, Q: r.Intn(3)}})
		ts = append(ts, tstep{at + int64(r.Range(6000, 9000)), Step{K: "cut", C: 21}})
		kOf[21] = 5
	}
	t += down + 16000
	ts = append(ts, tstep{t, Step{K: "sleep", I: 10000}})
	return finishLife(c, ts, kOf)
}

func judgeWills(w *world) {
	judgeWillOf(w, 20, "will1")
	if w.clients[21] != nil {
		judgeWillOf(w, 21, "will2") // a second session with a will, accepted by the restarted node
	}
}

func judgeWillOf(w *world, dyingID int, willTag string) {
	endMs := w.nowMs()
	dying := w.clients[dyingID]
	if dying == nil || dying.connack == nil || dying.connack.RC != 0 {
		return
	}
	f := w.lifeFactsOf(dying)
	if f.cause == "" {
		// silence is recognised by the gap
		if longestGap(w, dying, endMs) > 2*f.k*1000 {
			f.cause = "silence"
		}
	}
	if f.cause == "" && dyingID == 21 && dying.sawClose && dying.disconnAt < 0 {
		// the broker ended it on its own: an end without DISCONNECT all the same
		f.cause, f.causeAt = "closed-by-broker", dying.closeAt
	}
	if f.cause == "" {
		return
	}
	willTopic := dying.opts.WillTopic
	expectWill := f.cause != "disconnect"
	judged := 0
	ids := make([]int, 0, len(w.clients))
	for id := range w.clients {
		ids = append(ids, id)
	}
	sort.Ints(ids)
	for _, id := range ids {
		cl := w.clients[id]
		if id == 20 || id == 21 || cl.connack == nil || cl.connack.RC != 0 {
			continue
		}
		if !w.nodes[cl.node].alive || !w.clientAliveThrough(cl) {
			continue // only watchers on surviving nodes are judged
		}
		var filter string
		for _, s := range w.c.Steps {
			if s.K == "sub" && s.C == id && len(s.L) > 0 {
				filter = s.L[0]
			}
		}
		got := 0
		for _, ex := range cl.exch {
			// nothing but the will is ever published in this profile
			if ex.tag == willTag || (dying.opts.WillPayload == "" && ex.tag == "" && ex.topic == willTopic) {
				got++
				if ex.topic != willTopic {
					w.o.violate("C13", "will-topic-altered", len(w.c.Steps), endMs, map[string]string{"cause": f.cause}, "watcher %d received the will on topic %q, the will topic is %q", id, ex.topic, willTopic)
				}
			}
		}
		want := 0
		if expectWill && cl.mount == dying.mount && refMatch(filter, willTopic) {
			want = 1
		}
		judged++
		if f.cause == "stopnode" && want == 1 && !w.knownAtStop[cl.node][dying.sid] {
			w.o.probe("record_unreplicated_at_node_death")
			continue // the watcher's node had never learned of the session: nothing it could publish
		}
		if got != want {
			kind := "will-missing"
			if got > want {
				kind = "will-unexpected"
				if want == 1 {
					kind = "will-duplicated"
				}
			}
			attrs := map[string]string{"cause": f.cause, "same_mount": fmt.Sprint(cl.mount == dying.mount), "same_node": fmt.Sprint(cl.node == dying.node)}
			if f.restart != "" {
				attrs["host_restarted"] = f.restart
			}
			if st, stopped := w.stopAt[dying.node]; stopped && f.cause != "stopnode" {
				attrs["node_died_after_session_end"] = fmt.Sprint(st >= f.causeAt)
				// the host publishes the will after it has removed (and started to gossip the removal
				// of) the record: if it dies within the few milliseconds the publication takes to reach
				// the other nodes, nobody publishes it
				endAt := f.causeAt
				if dying.sawClose && dying.closeAt > endAt {
					endAt = dying.closeAt
				}
				attrs["host_died_right_after_end"] = fmt.Sprint(st >= endAt && st-endAt <= 50)
				// did the host itself drop the record before it died, and had that removal been
				// handed to the watcher's node when it was told of the failure?
				_, gerr := w.nodes[dying.node].dstate.SessionMetadatas().Get(dying.sid)
				attrs["host_removed_record"] = fmt.Sprint(gerr != nil)
				reached := false
				if told, ok := w.leaveAt[[2]int{cl.node, dying.node}]; ok {
					var fo kEntry
					for _, r := range w.recv {
						if r.Node == cl.node && r.Src != "emit" && r.AtMs < told {
							for _, e := range r.Entries {
								if e.Key == "S|"+dying.sid && e.Stamp > fo.Stamp {
									fo = e
								}
							}
						}
					}
					reached = fo.Stamp > 0 && !fo.Live
				}
				attrs["removal_reached_watcher_node"] = fmt.Sprint(reached)
			}
			if f.cause == "stopnode" && f.restart == "" {
				lo, hi := int64(1<<62), int64(0)
				for k, at := range w.leaveAt {
					if k[1] == dying.node {
						if at < lo {
							lo = at
						}
						if at > hi {
							hi = at
						}
					}
				}
				attrs["leave_spread_over_3s"] = fmt.Sprint(hi-lo > 3000)
			}
			w.o.violate("C13", kind, len(w.c.Steps), endMs, attrs,
				"session 'dying' (node %d, will on %q) ended by %s at %dms; watcher %d (node %d, mount %s, filter %q) received the will %d times, want %d", dying.node, willTopic, f.cause, f.causeAt, id, cl.node, cl.mount, filter, got, want)
		}
	}
	w.o.probe("cause_" + f.cause)
	w.o.Stats["watchers_judged"] += int64(judged)
	w.o.Nontrivial = judged > 0
}

func runC13(t *testing.T, c *Case) *Outcome {
	return runE1(t, c, profileHooks{judge: judgeWills})
}

// ---------------------------------------------------------------------------------------
// C16 auth

func genC16(r *Rand, tier, profile string) *Case {
	c := &Case{Profile: "auth", Knobs: map[string]int64{"nodes": 1}}
	c.Knobs["auth"] = int64(r.PickInt([]int{0, 1, 1, 1}))
	users := []string{"alice", "bob", "carol", "dave", "erin", "frank", "gus"}
	passes := []string{"pw1", "pw2", "secret", "x", "pw1"}
	if r.Bool(0.4) {
		// field lengths around and beyond a SHA-256 digest (32 bytes): tokens as passwords, long
		// device names as users
		passes = []string{"pw1", "0123456789abcdef01234567", "0123456789abcdef012345678", "a-much-longer-token-0123456789abcdef0123456789abcdef", "secret", "ssssssssssssssssssssssssssssss"}
		users = []string{"al", "bobby1", "device-0123456789abcdef01234567", "carol", "a-thirty-two-byte-long-user-name", "erin", "gus"}
	}
	n := r.Range(1, 6)
	perm := r.Perm(len(users))
	var rows []string
	type row struct{ u, p, m string }
	var tab []row
	for i := 0; i < n; i++ {
		u := users[perm[i]]
		p := r.Pick(passes)
		m := ""
		if r.Bool(0.5) {
			m = r.Pick([]string{"ta", "tb", "_default", "-"}) // "-": third field present but empty
		}
		if c.Knobs["auth"] == 0 {
			m = ""
		}
		rows = append(rows, u+":"+p+":"+m)
		tab = append(tab, row{u, p, m})
		if c.Knobs["auth"] == 0 {
			break
		}
	}
	c.Steps = append(c.Steps, Step{K: "authtab", L: rows})
	var ts []tstep
	t := int64(5)
	// one watcher per mount point, with valid credentials, subscribed to everything
	seen := map[string]bool{}
	wi := 0
	for _, rw := range tab {
		m := rw.m
		if m == "" {
			m = "_default"
		}
		if seen[m] {
			continue
		}
		seen[m] = true
		ts = append(ts, tstep{t, Step{K: "connect", C: 50 + wi, N: 0, S: fmt.Sprintf("watch%d", wi), U: rw.u, T: rw.p, I: 3000}})
		ts = append(ts, tstep{t + 4, Step{K: "sub", C: 50 + wi, L: []string{"#"}, QL: []int{0}, I: 1}})
		wi++
		t += 10
	}
	nc := r.Range(1, 8)
	for i := 1; i <= nc; i++ {
		var u, p string
		switch x := r.Intn(10); {
		case x < 4: // a real row
			rw := tab[r.Intn(len(tab))]
			u, p = rw.u, rw.p
		case x < 6: // right user, wrong/absent password
			rw := tab[r.Intn(len(tab))]
			u, p = rw.u, r.Pick([]string{"nope", "", rw.p + "x"})
		case x < 7: // swapped
			rw := tab[r.Intn(len(tab))]
			u, p = rw.p, rw.u
		case x < 8: // password of another row
			a, b := tab[r.Intn(len(tab))], tab[r.Intn(len(tab))]
			u, p = a.u, b.p
		case x < 9 && r.Bool(0.4): // the same characters, split differently between the two fields
			rw := tab[r.Intn(len(tab))]
			all := rw.u + rw.p
			k := r.Intn(len(all) + 1)
			u, p = all[:k], all[k:]
		case x < 9: // unknown user
			// names whose digests fall before, between and after the configured ones, mostly with a
			// password that is valid for somebody else
			u = r.Pick([]string{"mallory", "zed", "a", "root", "ghost", "nobody", "x1", "q", "trent", "oscar"})
			if r.Bool(0.3) {
				u = fmt.Sprintf("u%d", r.Intn(1000))
			}
			p = r.Pick(passes)
			if r.Bool(0.7) {
				p = tab[r.Intn(len(tab))].p
			}
		default:
			u, p = "", r.Pick([]string{"", "pw1"})
		}
		t += int64(r.Range(5, 50))
		ts = append(ts, tstep{t, Step{K: "connect", C: i, N: 0, S: fmt.Sprintf("cand%d", i), U: u, T: p, I: 3000, L: []string{"rw/x", fmt.Sprintf("rwill%d", i)}}})
		ts = append(ts, tstep{t + 6, Step{K: "sub", C: i, L: []string{"s/#"}, QL: []int{0}, I: 1}})
	}
	t += 50
	ts = append(ts, tstep{t, Step{K: "settle"}})
	t += settleDur + 10
	// every candidate's link drops without DISCONNECT: accepted ones must publish their will, refused ones must not
	for i := 1; i <= nc; i++ {
		if r.Bool(0.5) {
			ts = append(ts, tstep{t, Step{K: "cut", C: i}})
			t += 7
		}
	}
	ts = append(ts, tstep{t + 10, Step{K: "sleep", I: 3000}})
	c.Steps = append(c.Steps, mergeTimelines(ts)...)
	return c
}

func judgeAuth(w *world) {
	endMs := w.nowMs()
	if w.loadErr != "" {
		lines := 0
		three := false
		for _, s := range w.c.Steps {
			if s.K == "authtab" {
				lines = len(s.L)
				for _, l := range s.L {
					if !strings.HasSuffix(l, ":") {
						three = true
					}
				}
			}
		}
		w.o.violate("C16", "load", 0, endMs, map[string]string{"three_field_line": fmt.Sprint(three)}, "the credential store could not be loaded from a well-formed file of %d lines: %s", lines, w.loadErr)
		return
	}
	if len(w.settles) == 0 {
		return
	}
	first := w.settles[0]
	judged := 0
	ids := make([]int, 0, len(w.clients))
	for id := range w.clients {
		ids = append(ids, id)
	}
	sort.Ints(ids)
	rowsN := len(w.authTab)
	for _, id := range ids {
		cl := w.clients[id]
		wantMount := ""
		match := false
		pos := -1
		for i, r := range w.authTab {
			if r.user == cl.opts.User && r.pass == cl.opts.Pass && cl.opts.HasUser {
				match, wantMount, pos = true, r.mount, i
			}
		}
		judged++
		attrs := map[string]string{"rows": fmt.Sprint(rowsN), "static": fmt.Sprint(w.c.knob("auth", 2) == 0)}
		if cl.connack == nil {
			w.o.violate("C16", "no-connack", len(w.c.Steps), endMs, attrs, "client %d (user %q) never received a CONNACK", id, cl.opts.User)
			continue
		}
		accepted := cl.connack.RC == 0
		if accepted != match {
			kind := "valid-credentials-refused"
			if accepted {
				kind = "invalid-credentials-accepted"
			}
			attrs["row_position"] = fmt.Sprint(pos)
			w.o.violate("C16", kind, len(w.c.Steps), endMs, attrs, "client %d connected with user %q password %q: CONNACK code %d, the table (%d rows) says match=%v", id, cl.opts.User, cl.opts.Pass, cl.connack.RC, rowsN, match)
			continue
		}
		lines := sessionLines(first.Listings[0], cl.opts.ClientID)
		if accepted {
			if len(lines) != 1 {
				w.o.violate("C16", "accepted-not-listed", len(w.c.Steps), endMs, attrs, "client %d was accepted but the node lists %v for it", id, lines)
				continue
			}
			if m := strings.Split(lines[0], "|")[4]; m != wantMount {
				w.o.violate("C16", "wrong-mount-point", len(w.c.Steps), endMs, attrs, "client %d (user %q) was placed in mount point %q, its table entry says %q", id, cl.opts.User, m, wantMount)
			}
			continue
		}
		w.o.probe("refused_candidates")
		// refused: no session, no subscription, no will — ever
		for si, st := range w.settles {
			if l := sessionLines(st.Listings[0], cl.opts.ClientID); len(l) > 0 {
				w.o.violate("C16", "refused-left-session", len(w.c.Steps), endMs, attrs, "refused client %d is listed at settle %d: %v", id, si, l)
			}
			for _, x := range st.Listings[0] {
				if strings.HasPrefix(x, "U|") && strings.Contains(x, "/s/#|") && cl.sid != "" && strings.Contains(x, cl.sid) {
					w.o.violate("C16", "refused-left-subscription", len(w.c.Steps), endMs, attrs, "refused client %d left subscription %s", id, x)
				}
			}
		}
		will := fmt.Sprintf("rwill%d", id)
		for _, wid := range ids {
			for _, ex := range w.clients[wid].exch {
				if ex.tag == will {
					w.o.violate("C16", "refused-will-published", len(w.c.Steps), endMs, attrs, "the will of refused client %d was delivered to client %d", id, wid)
				}
			}
		}
	}
	w.o.Stats["candidates_judged"] += int64(judged)
	w.o.Nontrivial = judged >= 2
}

func runC16(t *testing.T, c *Case) *Outcome {
	return runE1(t, c, profileHooks{judge: judgeAuth})
}

// ---------------------------------------------------------------------------------------
// C17 tenants

var tenantCreds = map[string][2]string{"ta": {"ua", "pa"}, "tb": {"ub", "pb"}, "tc": {"uc", "pc"}, "ta1": {"ud", "pd"}}

func genC17(r *Rand, tier, profile string) *Case {
	c := &Case{Profile: "tenants", Knobs: map[string]int64{}}
	nodes := r.PickInt([]int{1, 1, 2})
	c.Knobs["nodes"] = int64(nodes)
	gossipKnobs(r, c)
	// mount points come from the real file credential store (3-field lines)
	c.Knobs["auth"] = 1
	c.Steps = append(c.Steps, Step{K: "authtab", L: []string{"ua:pa:ta", "ub:pb:tb", "uc:pc:tc", "ud:pd:ta1", "u:p:"}})
	tenants := []string{"ta", "tb", "tc"}[:r.Range(2, 3)]
	// mount points one of which is a prefix of the other, with client ids that make up the
	// difference ("ta"+"1x" reads like "ta1"+"x"): the two fields are separate keys
	prefixed := r.Bool(0.25)
	if prefixed {
		tenants = []string{"ta", "ta1"}
	}
	var ts []tstep
	t := int64(1)
	cid := 0
	type cinfo struct {
		id     int
		tenant string
	}
	var cls []cinfo
	filters := []string{"#", "+", "+/x", "a/#", "a/x", "+/+", "a/+"}
	// levels that are ordinary strings to MQTT but mean something to path-like code: "..", ".",
	// empty levels and the names of the other mount points
	oddFilters := []string{"../#", "../+/#", "../tb/#", "../ta/#", "+/+/#", "/#", "./#", "tb/#", "ta/#", "../tb/a/x", "a//x"}
	oddTopics := []string{"../tb/a/x", "../ta/a/x", "../tc/x", "..", "../tb/a", "./a/x", "/a/x", "a//x", "a/x/", "tb/a/x", "ta/x", "a/./x", "a/../x", "../../tb/a/x"}
	odd := r.Bool(0.5)
	for _, tn := range tenants {
		for k := r.Range(1, 3); k > 0; k-- {
			cid++
			name := r.Pick([]string{"shared1", "shared2", fmt.Sprintf("own%d", cid)}) // ids shared across tenants on purpose
			if prefixed && tn == "ta" {
				name = r.Pick([]string{"1x", "11", "1-p"})
			} else if prefixed {
				name = r.Pick([]string{"x", "1", "-p"})
			}
			// within one tenant ids must be unique (that would be a takeover, C12)
			for _, o := range cls {
				if o.tenant == tn {
					name = fmt.Sprintf("%s-%d", name, cid)
				}
			}
			cr := tenantCreds[tn]
			st := Step{K: "connect", C: cid, N: r.Intn(nodes), S: name, U: cr[0], T: cr[1], I: 3000}
			if r.Bool(0.3) {
				wt := "a/will"
				if r.Bool(0.5) {
					// a will topic that starts with (another) tenant's name
					wt = r.Pick([]string{"ta", "tb", "tc", "_default"}) + r.Pick([]string{"/will", "/a/will", "/a/x"})
				}
				st.L = []string{wt, fmt.Sprintf("%s-will%d", tn, cid)}
			}
			ts = append(ts, tstep{t, st})
			var fs []string
			var qs []int
			for j := r.Range(1, 2); j > 0; j-- {
				if odd && r.Bool(0.3) {
					fs = append(fs, r.Pick(oddFilters))
				} else {
					fs = append(fs, r.Pick(filters))
				}
				qs = append(qs, r.Intn(2))
			}
			ts = append(ts, tstep{t + 5, Step{K: "sub", C: cid, L: fs, QL: qs, I: 1}})
			cls = append(cls, cinfo{cid, tn})
			t += int64(r.Range(8, 400))
		}
	}
	t += 50
	ts = append(ts, tstep{t, Step{K: "settle"}})
	t += settleDur + 10
	tag := 0
	topics := []string{"a/x", "a", "x", "b/x", "a/will", "a/b/c"}
	for n := r.Range(2, 10); n > 0; n-- {
		p := cls[r.Intn(len(cls))]
		tag++
		topic := r.Pick(topics)
		if odd && r.Bool(0.4) {
			topic = r.Pick(oddTopics)
		}
		ts = append(ts, tstep{t, Step{K: "pub", C: p.id, T: topic, S: fmt.Sprintf("%s-m%d", p.tenant, tag), Q: r.Intn(2), F: r.Bool(0.25), I: int64(100 + tag)}})
		t += int64(r.Range(3, 60))
	}
	// some sessions die without DISCONNECT (wills), then late subscribers check retained state
	for _, p := range cls {
		if r.Bool(0.25) {
			ts = append(ts, tstep{t, Step{K: "cut", C: p.id}})
			t += 9
		}
	}
	if nodes > 1 && r.Bool(0.25) {
		// the second node fails (wills of its sessions are published by the survivor); sometimes
		// it is reported as gone twice within the survivor's 3 s grace period
		if r.Bool(0.6) {
			c.Knobs["leave_repeat_ms"] = int64(r.Range(200, 2600))
		}
		t += 2000 // whatever was published has long been handed over
		ts = append(ts, tstep{t, Step{K: "stopnode", N: 1}})
		t += 10000
	}
	t += 100
	ts = append(ts, tstep{t, Step{K: "settle"}})
	t += settleDur + 10
	for _, tn := range tenants {
		cid++
		cr := tenantCreds[tn]
		ts = append(ts, tstep{t, Step{K: "connect", C: cid, N: r.Intn(nodes), S: fmt.Sprintf("late-%s", tn), U: cr[0], T: cr[1], I: 3000}})
		ts = append(ts, tstep{t + 5, Step{K: "sub", C: cid, L: []string{"#"}, QL: []int{0}, I: 1}})
		t += 12
	}
	t += 1500
	// every surviving session proves it is still served
	for _, p := range cls {
		ts = append(ts, tstep{t, Step{K: "pkt", C: p.id, S: "pingreq"}})
		t += 3
	}
	ts = append(ts, tstep{t + 10, Step{K: "sleep", I: 1500}})
	c.Steps = append(c.Steps, mergeTimelines(ts)...)
	return c
}

func judgeTenants(w *world) {
	endMs := w.nowMs()
	// what was published where
	type sent struct {
		mount, topic string
		retain       bool
	}
	pubs := map[string]sent{}
	for si, s := range w.c.Steps {
		if s.K == "pub" && w.txStamp(si, s.C, tPUBLISH) >= 0 {
			pubs[s.S] = sent{w.clients[s.C].mount, s.T, s.F}
		}
		if s.K == "connect" && len(s.L) == 2 {
			if cl := w.clients[s.C]; cl != nil {
				pubs[s.L[1]] = sent{cl.mount, s.L[0], false}
			}
		}
	}
	j := w.buildRouteModel()
	judged := 0
	ids := make([]int, 0, len(w.clients))
	for id := range w.clients {
		ids = append(ids, id)
	}
	sort.Ints(ids)
	for _, id := range ids {
		cl := w.clients[id]
		if cl.connack == nil || cl.connack.RC != 0 {
			continue
		}
		for _, ex := range cl.exch {
			judged++
			p, ok := pubs[ex.tag]
			if !ok {
				w.o.violate("C17", "unknown-message", len(w.c.Steps), endMs, nil, "client %d (mount %s) received %q on %q which nobody published", id, cl.mount, ex.tag, ex.topic)
				continue
			}
			if p.mount != cl.mount {
				kind := "publish"
				if strings.Contains(ex.tag, "-will") {
					kind = "will"
				}
				w.o.violate("C17", "cross-tenant-delivery", len(w.c.Steps), endMs, map[string]string{"what": kind},
					"client %d in mount point %s received %s (topic %q), which was published in mount point %s", id, cl.mount, ex.tag, ex.topic, p.mount)
				continue
			}
			if ex.topic != p.topic {
				w.o.violate("C17", "topic-name-altered", len(w.c.Steps), endMs, nil, "client %d received %s on topic %q; its publisher used %q", id, ex.tag, ex.topic, p.topic)
			}
		}
		// sessions sharing a client id with another tenant stay alive and served
		f := w.lifeFactsOf(cl)
		if f.cause == "" {
			shared := false
			for _, oid := range ids {
				if o := w.clients[oid]; oid != id && o.opts.ClientID == cl.opts.ClientID && o.mount != cl.mount {
					shared = true
				}
			}
			if cl.sawClose || cl.pingResp < cl.pingsSent {
				w.o.violate("C17", "session-disturbed", len(w.c.Steps), endMs, map[string]string{"client_id_shared_across_tenants": fmt.Sprint(shared)},
					"client %d (id %q, mount %s) committed no error yet closed=%v, PINGREQ %d / PINGRESP %d", id, cl.opts.ClientID, cl.mount, cl.sawClose, cl.pingsSent, cl.pingResp)
			}
			if shared {
				w.o.probe("shared_id_sessions_judged")
			}
		}
	}
	// expected in-tenant deliveries (a cross-tenant takeover shows up as missing ones)
	for _, p := range j.pubs {
		for _, id := range ids {
			cl := w.clients[id]
			if !w.clientAliveThrough(cl) || cl.mount != p.mount {
				continue
			}
			fs := j.active[p.step][id]
			if fs == nil {
				continue
			}
			want := 0
			for f := range fs {
				if refMatch(f, p.topic) {
					want++
				}
			}
			got := 0
			for _, ex := range cl.exch {
				if ex.tag == p.tag && !isRetainedReplay(w, cl, ex) {
					got++
				}
			}
			if got < want {
				w.o.violate("C17", "in-tenant-delivery-missing", p.step, endMs, nil, "publish %s on %q in mount %s: client %d (filters %v) received %d copies, want %d", p.tag, p.topic, p.mount, id, sortedFilters(fs), got, want)
			}
		}
	}
	w.o.Stats["received_messages_judged"] += int64(judged)
	w.o.Nontrivial = judged > 0
}

func isRetainedReplay(w *world, cl *simClient, ex *rxExchange) bool {
	for _, ob := range w.obs {
		if ob.Rx && ob.Client == cl.idx && ob.Epoch == cl.epoch && ob.P.Type == tPUBLISH && tagOf(ob.P.Payload) == ex.tag && ob.AtMs == ex.firstAt {
			return ob.P.Retain
		}
	}
	return false
}

func runC17(t *testing.T, c *Case) *Outcome {
	return runE1(t, c, profileHooks{judge: judgeTenants})
}

// ---------------------------------------------------------------------------------------
// C18 hostile input

func genHostileBytes(r *Rand) []byte {
	// start from a valid packet, then mutate
	var base []byte
	switch r.Intn(12) {
	case 0:
		base = encConnect(connectOpts{ClientID: "h", User: "u", Pass: "p", HasUser: true, HasPass: true, Keepalive: 30, WillTopic: r.Pick([]string{"w/h", "wit/h"}), WillPayload: "x", WillQos: r.Intn(3), WillRetain: r.Bool(0.3)})
	case 1, 2:
		base = encPublish("t/h", []byte("hostile"), r.Intn(4), r.Bool(0.3), r.Bool(0.3), r.Intn(3))
	case 3:
		base = encSubscribe(r.Intn(3), []string{"a/#", "b"}, []int{r.Intn(4), 1})
	case 4:
		base = encSubscribe(r.Intn(3), nil, nil) // empty topic list
	case 5:
		base = encUnsubscribe(r.Intn(3), []string{"a/#"})
	case 6:
		base = encUnsubscribe(1, nil)
	case 7:
		base = encAck(r.PickInt([]int{tPUBACK, tPUBREC, tPUBREL, tPUBCOMP}), r.Intn(3))
	case 8:
		base = encSimple(r.PickInt([]int{tPINGREQ, tDISCONNECT, tPINGRESP, tCONNACK, tSUBACK, 0, 15}))
	case 9:
		base = frame(r.Intn(16), byte(r.Intn(16)), []byte{})
	case 10:
		base = encPublish("", []byte{}, 1, false, false, 0)
	default:
		n := r.Range(1, 12)
		base = make([]byte, n)
		for i := range base {
			base[i] = byte(r.Intn(256))
		}
	}
	b := append([]byte(nil), base...)
	switch r.Intn(9) {
	case 0: // truncate
		if len(b) > 1 {
			b = b[:r.Range(1, len(b)-1)]
		}
	case 1: // flip type / flags nibble
		b[0] ^= byte(1 << uint(r.Intn(8)))
	case 2: // corrupt remaining length: continuation bytes
		k := r.Range(1, 5)
		rl := make([]byte, k)
		for i := range rl {
			rl[i] = 0x80 | byte(r.Intn(128))
		}
		if r.Bool(0.5) && k < 5 {
			rl[k-1] &= 0x7f
		}
		b = append(append([]byte{b[0]}, rl...), b[minInt(2, len(b)):]...)
	case 3: // remaining length larger than the data (bounded)
		n := r.PickInt([]int{len(b) + 1, 200, 5000, 70000, 1 << 20})
		b = append(append([]byte{b[0]}, encRemLen(n)...), b[minInt(2, len(b)):]...)
	case 4: // corrupt an inner length prefix
		if len(b) > 4 {
			i := r.Range(2, len(b)-2)
			b[i], b[i+1] = byte(r.Intn(256)), byte(r.Intn(256))
		}
	case 5: // remaining length 0 or 1 with a type that needs more
		b = []byte{b[0], byte(r.Intn(2))}
		if b[1] == 1 {
			b = append(b, byte(r.Intn(256)))
		}
	case 6: // random byte flips
		for k := r.Range(1, 3); k > 0 && len(b) > 0; k-- {
			b[r.Intn(len(b))] ^= byte(1 + r.Intn(255))
		}
	default: // unmodified valid packet in an odd place
	}
	return b
}

// genHostileSequence: well-formed packets in an order or with identifiers the protocol forbids
// (the state machine rather than the decoder is the target).
func genHostileSequence(r *Rand) [][]byte {
	n := r.Range(1, 9)
	wrong := func() int { return r.PickInt([]int{tPUBACK, tPUBREC, tPUBREL, tPUBCOMP}) }
	pub := func(q, id int, dup bool) []byte {
		return encPublish(r.Pick([]string{"t/h", "wit/h", "wit/x"}), []byte("hostile"), q, false, dup, id)
	}
	var out [][]byte
	switch r.Intn(8) {
	case 0: // an acknowledgement of the wrong type for an exchange the client itself opened
		out = append(out, pub(2, n, false), encAck(r.PickInt([]int{tPUBACK, tPUBREC, tPUBCOMP}), n))
		if r.Bool(0.5) {
			out = append(out, encAck(tPUBREL, n))
		}
	case 1: // repeated PUBLISH / PUBREL with one identifier
		out = append(out, pub(2, n, false), pub(2, n, r.Bool(0.5)), encAck(tPUBREL, n), encAck(tPUBREL, n), pub(2, n, true))
	case 2: // acknowledgements for nothing
		for k := r.Range(1, 5); k > 0; k-- {
			out = append(out, encAck(wrong(), r.Intn(12)))
		}
	case 3: // the same identifier on several QoS 1 publishes at once
		for k := r.Range(2, 6); k > 0; k-- {
			out = append(out, pub(1, n, r.Bool(0.3)))
		}
	case 4: // subscribe / unsubscribe with clashing identifiers, then wrong-type acks for whatever
		// the broker may have sent meanwhile
		out = append(out, encSubscribe(n, []string{"wit/#"}, []int{r.Range(1, 2)}), encUnsubscribe(n, []string{"wit/#"}), encSubscribe(n, []string{"wit/#", "wit/#"}, []int{2, 1}))
		for id := 1; id <= 4; id++ {
			out = append(out, encAck(wrong(), id))
		}
	case 5: // traffic after DISCONNECT
		out = append(out, pub(2, n, false), encSimple(tDISCONNECT), encAck(tPUBREL, n), pub(1, n+1, false), encSimple(tPINGREQ))
	case 6: // a flood of keep-alive requests and server-only packets
		for k := r.Range(5, 30); k > 0; k-- {
			out = append(out, encSimple(r.PickInt([]int{tPINGREQ, tPINGREQ, tPINGRESP, tCONNACK, tSUBACK})))
		}
	default: // QoS 2 handshakes interleaved on neighbouring identifiers, each finished wrongly
		out = append(out, pub(2, n, false), pub(2, n+1, false), encAck(tPUBCOMP, n), encAck(tPUBREL, n+1), encAck(tPUBACK, n+1), encAck(tPUBREL, n))
	}
	return out
}

func genC18(r *Rand, tier, profile string) *Case {
	c := &Case{Profile: "hostile", Knobs: map[string]int64{"nodes": 1}}
	var ts []tstep
	t := int64(1)
	ts = append(ts, tstep{t, Step{K: "connect", C: 0, N: 0, S: "witness", U: "u", T: "p", I: 3000}})
	ts = append(ts, tstep{t + 5, Step{K: "sub", C: 0, L: []string{"wit/#"}, QL: []int{1}, I: 1}})
	ts = append(ts, tstep{t + 8, Step{K: "connect", C: 1, N: 0, S: "bystander", U: "u", T: "p", I: 3000}})
	ts = append(ts, tstep{t + 12, Step{K: "sub", C: 1, L: []string{"wit/#"}, QL: []int{0}, I: 1}})
	t += 60
	if r.Bool(0.12) {
		// a well-behaved client's packet arrives in two segments, split inside its length field,
		// and between the two a new connection sends the first byte of a CONNECT - after enough
		// short-lived connections for the broker's set-up workers to have gone round
		for k := r.Range(15, 21); k > 0; k-- {
			ts = append(ts, tstep{t, Step{K: "rawconnect", C: 40, N: 0}})
			ts = append(ts, tstep{t + 2, Step{K: "close", C: 40}})
			t += 6
		}
		big := encPublish("wit/x", []byte("split-"+strings.Repeat("z", 118)), 1, false, false, 77)
		ts = append(ts, tstep{t, Step{K: "raw", C: 0, B: big[:2]}})
		ts = append(ts, tstep{t + 3, Step{K: "rawconnect", C: 41, N: 0}})
		ts = append(ts, tstep{t + 4, Step{K: "raw", C: 41, B: []byte{0x10}}})
		ts = append(ts, tstep{t + 9, Step{K: "raw", C: 0, B: big[2:]}})
		t += 300
	}
	nh := r.Range(1, 4)
	wtag := 0
	for i := 0; i < nh; i++ {
		cid := 10 + i
		if r.Bool(0.6) {
			// a proper CONNECT first: the hostile bytes hit an established session
			hc := Step{K: "connect", C: cid, N: 0, S: fmt.Sprintf("h%d", i), U: "u", T: "p", I: int64(r.PickInt([]int{2, 30}))}
			if i > 0 && r.Bool(0.35) {
				hc.S = fmt.Sprintf("h%d", i-1) // the identifier of an earlier hostile connection, possibly still open
			}
			if r.Bool(0.5) { // with a will of any QoS: it is published when the hostile session is thrown out
				hc.L, hc.Q, hc.F = []string{r.Pick([]string{"wit/hw", "w/hw"}), fmt.Sprintf("hwill%d", i)}, r.Intn(3), r.Bool(0.3)
			}
			ts = append(ts, tstep{t, hc})
			t += 10
			if r.Bool(0.4) {
				ts = append(ts, tstep{t, Step{K: "sub", C: cid, L: []string{"wit/#"}, QL: []int{r.Intn(3)}, I: 1}})
				t += 10
			}
		} else {
			// raw bytes straight after the TCP connection: use a connect step with an empty... no:
			// open the connection with a raw first packet
			ts = append(ts, tstep{t, Step{K: "rawconnect", C: cid, N: 0}})
			t += 3
		}
		if r.Bool(0.35) {
			pk := genHostileSequence(r)
			if r.Bool(0.3) { // all in one write
				var all []byte
				for _, b := range pk {
					all = append(all, b...)
				}
				pk = [][]byte{all}
			}
			for _, b := range pk {
				ts = append(ts, tstep{t, Step{K: "raw", C: cid, B: b}})
				t += int64(r.PickInt([]int{0, 1, 5, 40}))
			}
			t += 50
		} else {
			for k := r.Range(1, 4); k > 0; k-- {
				b := genHostileBytes(r)
				st := Step{K: "raw", C: cid, B: b}
				if r.Bool(0.3) && len(b) > 2 {
					st.J = int64(r.Range(1, len(b)-1))
				}
				ts = append(ts, tstep{t, st})
				t += int64(r.Range(5, 200))
			}
		}
		switch r.Intn(3) {
		case 0:
			ts = append(ts, tstep{t, Step{K: "close", C: cid}})
		case 1:
			ts = append(ts, tstep{t, Step{K: "cut", C: cid}})
		}
		// the witness round trip after each hostile stream
		t += 300
		wtag++
		ts = append(ts, tstep{t, Step{K: "pub", C: 0, T: "wit/x", S: fmt.Sprintf("wit%d", wtag), Q: 1, I: int64(wtag)}})
		t += 5200
	}
	ts = append(ts, tstep{t, Step{K: "sleep", I: 500}})
	c.Steps = mergeTimelines(ts)
	return c
}

func judgeHostile(w *world) {
	endMs := w.nowMs()
	wit := w.clients[0]
	by := w.clients[1]
	if wit == nil || by == nil {
		return // shrunk away: nothing to judge
	}
	judged := 0
	for si, s := range w.c.Steps {
		if s.K != "pub" || s.C != 0 {
			continue
		}
		st := w.txStamp(si, 0, tPUBLISH)
		if st < 0 {
			w.o.violate("C18", "witness-disconnected", si, endMs, nil, "the witness could not publish %s: its connection was gone (closed by broker: %v)", s.S, wit.sawClose)
			continue
		}
		judged++
		ok, at := w.ackSeen(0, wit.epoch, tPUBACK, int(s.I), st)
		if !ok || at > w.stepAt[si]+5000 {
			w.o.violate("C18", "witness-stalled", si, endMs, map[string]string{"what": "puback"}, "the witness's QoS 1 publish %s at %dms was not acknowledged within 5 s (acked=%v at %dms)", s.S, w.stepAt[si], ok, at)
			continue
		}
		for _, cl := range []*simClient{wit, by} {
			got := false
			for _, ex := range cl.exch {
				if ex.tag == s.S && ex.firstAt <= w.stepAt[si]+5000 {
					got = true
				}
			}
			if !got {
				w.o.violate("C18", "witness-stalled", si, endMs, map[string]string{"what": "delivery"}, "client %d did not receive %s within 5 s", cl.idx, s.S)
			}
		}
	}
	// the other clients' sessions are still there
	if len(w.settles) > 0 {
		l := w.settles[len(w.settles)-1].Listings[0]
		for _, name := range []string{"witness", "bystander"} {
			if len(sessionLines(l, name)) != 1 {
				w.o.violate("C18", "bystander-session-lost", len(w.c.Steps), endMs, nil, "after the hostile streams the node lists %v for client id %s", sessionLines(l, name), name)
			}
		}
	}
	if wit.sawClose || by.sawClose {
		w.o.violate("C18", "bystander-disconnected", len(w.c.Steps), endMs, nil, "a well-behaved client was disconnected (witness closed=%v, bystander closed=%v)", wit.sawClose, by.sawClose)
	}
	w.o.Stats["round_trips_judged"] += int64(judged)
	w.o.Nontrivial = judged > 0
}

func runC18(t *testing.T, c *Case) *Outcome {
	return runE1(t, c, profileHooks{judge: judgeHostile})
}

func init() {
	register(&Check{ID: "C12", Level: "exploration", Build: "maporder", Gen: genC12, Run: runC12, QuickS: 30, ThoroughS: 480,
		Rule: "a case = 1-3 nodes, a chain of 2-4 connections sharing one client id on the same or different nodes (each CONNECT issued once the accepting node holds the earlier session's record), each session subscribing and later pinging / subscribing / disconnecting / losing its link at PRNG times, gossip loss/dup/delay; settle; publishes towards every session of the chain; distinct by hash of the scenario",
		Real: e1Real, Stub: e1Stub,
		Assume: []string{"a displaced session's PINGREQ is judged only if it was sent after its hosting node had merged the successor's record; a node holding both records as live at that moment is reported as takeover-ambiguous", "clocks are synchronised in this profile"}})
	register(&Check{ID: "C13", Variant: "restart", Level: "exploration", Build: "maporder", Gen: genC13Restart, Run: runC13, QuickS: 12, ThoroughS: 200,
		Rule: "variant for the cause 'failure of its hosting node' when the node comes back: 2-3 nodes, a session with a will and 1-4 watchers (mostly on the other nodes), a settle, then the hosting node's process dies and is started again from its data directory (same node id) 50 ms - 16 s later, before or after its peers were told; every watcher that stayed connected receives the will exactly once; non-trivial when >=1 watcher judged",
		Real: e1Real, Stub: e1Stub,
		Assume: []string{"a process restart keeps the node id", "a leave notification that is due after the process is back is not delivered (memberlist refutes the suspicion)"}})
	register(&Check{ID: "C13", Level: "exploration", Build: "maporder", Gen: genC13, Run: runC13, QuickS: 30, ThoroughS: 480,
		Rule: "a case = 1-3 nodes, a session with a will (topic of 1-3 levels, QoS 0-2, retain or not), 1-4 watchers with exact/wildcard/non-matching filters (one possibly in another mount point) placed over the nodes, a settle, then one termination cause (DISCONNECT, cut, close, silence, second CONNECT, hosting-node stop); judged per surviving watcher; non-trivial when >=1 watcher judged; distinct by hash of the scenario",
		Real: e1Real, Stub: e1Stub,
		Assume: []string{"the dying session's record has been replicated (settle) before it dies", "for the node-failure cause only watchers on surviving nodes are judged"}})
	register(&Check{ID: "C16", Level: "exploration", Build: "maporder", Gen: genC16, Run: runC16, QuickS: 30, ThoroughS: 400,
		Rule: "a case = a credential table of 1-6 rows (2- and 3-field lines, unique user names) served by the real file handler (3 of 4 cases) or the real static handler, and 1-8 candidates drawn from present, wrong-password, swapped, other-row-password, unknown and empty credentials, each carrying a will and trying to subscribe; links of some candidates are cut later; non-trivial when >=2 candidates judged; distinct by hash of (table, candidates)",
		Real: append([]string{"wasp/auth fileHandler / staticHandler reading a real file"}, e1Real...), Stub: e1Stub,
		Assume: []string{"the password column of the file holds the SHA-256 hex of the password (what fileHandler compares against)", "user names are unique within a table"}})
	register(&Check{ID: "C17", Level: "exploration", Build: "maporder", Gen: genC17, Run: runC17, QuickS: 30, ThoroughS: 480,
		Rule: "a case = 2-3 mount points with 1-3 clients each on 1-2 nodes, client ids shared across mount points on purpose, filters including bare '#', '+', '+/x', publishes, retained publishes and wills in every tenant, link cuts, late '#' subscribers per tenant; every message a client receives is traced to its publisher's mount point and topic; non-trivial when >=1 received message judged; distinct by hash of the scenario",
		Real: append([]string{"wasp/auth fileHandler over a generated 4-line file (mount points per user)"}, e1Real...), Stub: e1Stub,
		Assume: []string{"client ids are unique within a mount point (sharing inside one tenant is C12's takeover)"}})
	register(&Check{ID: "C18", Level: "exploration", Build: "maporder", Gen: genC18, Run: runC18, QuickS: 40, ThoroughS: 480, Isolated: true,
		Rule: "a case = one node with a witness and a bystander, 1-4 hostile connections (after a proper CONNECT or from the first byte) each sending 1-4 byte strings obtained from valid packets of every type by truncation, bit flips in type/flags, corrupted remaining length (continuation bytes, lengths beyond the data up to 1 MiB), corrupted length prefixes, QoS 3, empty topic lists, identifier 0, or random bytes, whole or fragmented; each case runs in its own process; after every hostile stream the witness completes a QoS 1 round trip within 5 s; non-trivial when >=1 round trip judged; distinct by hash of the scenario",
		Real: e1Real, Stub: e1Stub,
		Assume: []string{"declared lengths are capped at 1 MiB (allocation failure cannot be injected in Go)", "a panic in any broker goroutine kills the worker process and is reported with the scenario that was running"}})
}
