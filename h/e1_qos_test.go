package h

import (
	"fmt"
	"sort"
	"strings"
	"testing"

	"github.com/vx-labs/wasp/v4/wasp"
)

// ---------------------------------------------------------------------------------------
// C03 retx: unacknowledged QoS 1/2 deliveries are retransmitted until completed

const retxD = 5100 // ms: 3 s deadline + 1 s rounding + 1 s sweep period + 0.1 s

func genC03(r *Rand, tier, profile string) *Case {
	c := &Case{Profile: "retx", Knobs: map[string]int64{"nodes": 1}}
	if r.Bool(0.3) {
		c.Knobs["maporder"] = int64(1 + r.Intn(1000))
	}
	ns := r.Range(1, 3)
	var ts []tstep
	ts = append(ts, tstep{1, Step{K: "connect", C: 0, N: 0, S: "pub", U: "u", T: "p", I: 3000}})
	plans := []string{"ack", "ack", "silent1", "silent2", "silent3", "silent4", "wrongtype", "wrongid", "never", "ack+norel", "silent1+norel"}
	maxWait := int64(0)
	for i := 1; i <= ns; i++ {
		t := int64(10 + 15*i)
		ts = append(ts, tstep{t, Step{K: "connect", C: i, N: 0, S: fmt.Sprintf("s%d", i), U: "u", T: "p", I: 3000}})
		var plan []string
		for n := r.Range(1, 6); n > 0; n-- {
			p := r.Pick(plans)
			plan = append(plan, p)
			w := int64(2)
			switch {
			case strings.HasPrefix(p, "silent"):
				w = int64(p[6]-'0') + 1
			case p == "wrongtype" || p == "wrongid":
				w = 4
			case p == "never":
				w = 5
			}
			if strings.HasSuffix(p, "+norel") {
				w += 3
			}
			if w > maxWait {
				maxWait = w
			}
		}
		ts = append(ts, tstep{t + 2, Step{K: "ackplan", C: i, L: plan}})
		q := r.PickInt([]int{0, 1, 1, 2, 2}) // QoS 0 subscribers share the fan-out with the others
		ts = append(ts, tstep{t + 8, Step{K: "sub", C: i, L: []string{"r/#"}, QL: []int{q}, I: 1}})
	}
	t := int64(200)
	ts = append(ts, tstep{t, Step{K: "settle"}})
	t += settleDur + 50
	np := r.Range(1, 6)
	for i := 0; i < np; i++ {
		gap := int64(r.Range(1, 40))
		if r.Bool(0.3) {
			gap = 0 // same instant as the previous one: equal deadlines
		}
		if r.Bool(0.15) {
			gap = int64(r.Range(300, 2500))
		}
		t += gap
		ts = append(ts, tstep{t, Step{K: "pub", C: 0, T: "r/x", S: fmt.Sprintf("m%d", i+1), Q: r.Intn(2), I: int64(i + 1)}})
	}
	if r.Bool(0.25) {
		// one more while the slowest exchanges are still waiting (for a PUBACK, PUBREC or PUBCOMP)
		late := t + int64(r.Range(3200, 9000))
		ts = append(ts, tstep{late, Step{K: "pub", C: 0, T: "r/x", S: fmt.Sprintf("m%d", np+1), Q: 1 + r.Intn(2), I: int64(np + 1)}})
	}
	// some subscribers leave in the middle of their exchanges
	for i := 1; i <= ns; i++ {
		if r.Bool(0.25) {
			at := t + int64(r.Range(100, int(maxWait)*5000))
			k := r.Pick([]string{"cut", "close", "disc", "displaced"})
			if k == "disc" {
				ts = append(ts, tstep{at, Step{K: "pkt", C: i, S: "disconnect"}})
			} else if k == "displaced" {
				// the same client identifier connects again; the old session learns of it at its next
				// keep-alive exchange, or loses its link first
				ts = append(ts, tstep{at, Step{K: "connect", C: 10 + i, N: 0, S: fmt.Sprintf("s%d", i), U: "u", T: "p", I: 3000}})
				if r.Bool(0.6) {
					ts = append(ts, tstep{at + int64(r.Range(50, 2500)), Step{K: "pkt", C: i, S: "pingreq"}})
				} else {
					ts = append(ts, tstep{at + int64(r.Range(50, 2500)), Step{K: "cut", C: i}})
				}
			} else {
				ts = append(ts, tstep{at, Step{K: k, C: i}})
			}
		}
	}
	t += maxWait*5000 + 3000
	ts = append(ts, tstep{t, Step{K: "sleep", I: 12000}})
	c.Steps = mergeTimelines(ts)
	return c
}

func judgeRetx(w *world) {
	endMs := w.nowMs()
	judged := 0
	ids := make([]int, 0, len(w.clients))
	for id := range w.clients {
		ids = append(ids, id)
	}
	sort.Ints(ids)
	// which messages were published at all
	published := map[string]bool{}
	for _, ob := range w.obs {
		if !ob.Rx && ob.P.Type == tPUBLISH {
			published[tagOf(ob.P.Payload)] = true
		}
	}
	allDone := true
	for _, id := range ids {
		cl := w.clients[id]
		if id == 0 || cl.connack == nil {
			continue
		}
		f := w.lifeFactsOf(cl)
		sessionEnd := int64(-1)
		if f.cause != "" {
			sessionEnd = f.causeAt
		}
		// a newer connection with the same client identifier displaces this session: from then on
		// it need not be served any more
		// (it may be until it ends at its next keep-alive exchange, when the broker closes it)
		servedUntil := sessionEnd
		for _, other := range w.clients {
			if other != cl && other.connack != nil && other.opts.ClientID == cl.opts.ClientID && other.connectAt > cl.connectAt {
				if servedUntil < 0 || other.connectAt < servedUntil {
					servedUntil = other.connectAt
				}
				if sessionEnd < 0 && cl.sawClose {
					sessionEnd = cl.closeAt
				}
			}
		}
		perTag := map[string]int{}
		for _, ex := range cl.exch {
			perTag[ex.tag]++
		}
		for tag, n := range perTag {
			if n > 1 {
				w.o.violate("C03", "resent-as-new", len(w.c.Steps), endMs, nil, "subscriber %d received %s in %d separate exchanges (a completed exchange was sent again, or its identifier changed)", id, tag, n)
			}
		}
		for _, ex := range cl.exch {
			if ex.qos == 0 {
				continue
			}
			judged++
			attrs := map[string]string{"plan": strings.TrimSuffix(strings.SplitN(ex.plan, "!", 2)[0], "+norel"), "qos": fmt.Sprint(ex.qos)}
			if strings.Contains(ex.plan, "!changed") {
				w.o.violate("C03", "retransmission-altered", len(w.c.Steps), endMs, attrs, "subscriber %d: a retransmission of %s (id %d) carried a different topic, payload or QoS", id, ex.tag, ex.pid)
			}
			// R1: gaps between transmissions of the awaited packet
			for _, g := range ex.gaps {
				if g > retxD {
					w.o.violate("C03", "retransmission-late", len(w.c.Steps), endMs, attrs, "subscriber %d: %dms between two transmissions of the packet awaited for %s (id %d), bound %dms", id, g, ex.tag, ex.pid, retxD)
					break
				}
			}
			// R1 at the tail: an exchange still open must have been retransmitted recently,
			// unless the session ended
			until := endMs
			if servedUntil >= 0 {
				until = servedUntil
			}
			if ex.state != 2 {
				last := ex.lastAt
				if ex.state == 1 && ex.relLast > last {
					last = ex.relLast
				}
				if ex.state == 1 && ex.relSeen == 0 {
					// we sent PUBREC and never saw PUBREL: PUBREC sending time is lastAt (+latency)
				}
				if until-last > retxD+100 {
					phase := "publish"
					if ex.state == 1 {
						phase = "pubrel"
					}
					attrs["phase"] = phase
					attrs["equal_instant_peer"] = fmt.Sprint(hasEqualInstantPeer(cl, ex))
					w.o.violate("C03", "not-retransmitted", len(w.c.Steps), endMs, attrs,
						"subscriber %d: exchange for %s (id %d, qos %d, script %s) is incomplete, the session stayed connected until %dms, but the awaited packet was last sent at %dms (%d transmissions)", id, ex.tag, ex.pid, ex.qos, ex.plan, until, last, ex.seen)
				}
				if sessionEnd < 0 {
					allDone = false
				}
			}
			// R3: nothing after completion — a later PUBLISH with the same id while the client
			// considers it done shows up as a second exchange with the same tag (checked above);
			// a later PUBREL for a done exchange:
		}
		// R3 for session end: nothing for its exchanges after the end (+grace)
		if sessionEnd >= 0 {
			for _, ob := range w.obs {
				if ob.Rx && ob.Client == id && ob.Epoch == cl.epoch && (ob.P.Type == tPUBLISH || ob.P.Type == tPUBREL) && ob.AtMs > sessionEnd+1500 {
					w.o.violate("C03", "sent-after-session-end", len(w.c.Steps), endMs, map[string]string{"cause": f.cause}, "subscriber %d's session ended (%s) at %dms; %s was written to it at %dms", id, f.cause, sessionEnd, ob.P, ob.AtMs)
					break
				}
			}
		}
	}
	// R5: identifiers become reusable — when every exchange is complete or its session gone
	// (and the expiry of abandoned entries has had time to run), the pool is back to full.
	if pool := wasp.VerifWriterPool(w.nodes[0].writer); pool != nil && allDone {
		free := 0
		for i := 0; i < 70000; i++ {
			v := pool.Get()
			if v < 1 {
				break
			}
			free++
		}
		if free != 65535 {
			w.o.violate("C03", "identifier-leak", len(w.c.Steps), endMs, map[string]string{"sign": fmt.Sprint(free < 65535)}, "every exchange is complete or its session gone, yet the writer's pool has %d free identifiers of 65535", free)
		}
		w.o.probe("pool_baseline_checked")
	}
	w.o.Stats["exchanges_judged"] += int64(judged)
	w.o.Nontrivial = judged > 0
}

func hasEqualInstantPeer(cl *simClient, ex *rxExchange) bool {
	for _, o := range cl.exch {
		if o != ex && o.firstAt == ex.firstAt && o.qos > 0 {
			return true
		}
	}
	return false
}

func runC03(t *testing.T, c *Case) *Outcome {
	return runE1(t, c, profileHooks{judge: func(w *world) {
		judgeRetx(w)
		// "after completion or session end ... its identifier becomes reusable": not before. Two
		// exchanges open at the same time on the node never share an identifier.
		if a, b, ok := w.overlappingIDs(); ok {
			w.o.violate("C03", "identifier-reused-before-completion", len(w.c.Steps), w.nowMs(), map[string]string{"same_connection": fmt.Sprint(a.client == b.client)},
				"identifier %d was in flight for %s to client %d from %dms to %dms and was used again for %s to client %d at %dms", a.pid, a.tag, a.client, a.from, a.to, b.tag, b.client, b.from)
		}
	}})
}

type idSpan struct {
	client, pid int
	tag         string
	from, to    int64
	node        int
}

// idSpans: for every QoS>0 delivery a client saw, the period during which the exchange held its
// identifier (first PUBLISH until the client's final acknowledgement or the end of its session).
func (w *world) idSpans() []idSpan {
	endMs := w.nowMs()
	var spans []idSpan
	ids := make([]int, 0, len(w.clients))
	for id := range w.clients {
		ids = append(ids, id)
	}
	sort.Ints(ids)
	for _, id := range ids {
		cl := w.clients[id]
		f := w.lifeFactsOf(cl)
		for _, ex := range cl.exch {
			if ex.qos == 0 {
				continue
			}
			to := endMs + 1
			final := tPUBACK
			if ex.qos == 2 {
				final = tPUBCOMP
			}
			for _, ob := range w.obs {
				if !ob.Rx && ob.Client == id && ob.Epoch == cl.epoch && ob.P.Type == final && ob.P.Pid == ex.pid && ob.AtMs >= ex.firstAt {
					to = ob.AtMs
					break
				}
			}
			if f.cause != "" && f.causeAt < to {
				to = f.causeAt
			}
			if cl.sawClose && cl.closeAt < to {
				to = cl.closeAt // the broker has closed the connection: the session is over
			}
			// displaced by a newer connection with the same client identifier: from then on the
			// broker may end the session (and take back its identifiers) whenever it likes
			for _, other := range w.clients {
				if other != cl && other.connack != nil && other.opts.ClientID == cl.opts.ClientID && other.connectAt > cl.connectAt && other.connectAt < to {
					to = other.connectAt
				}
			}
			spans = append(spans, idSpan{client: id, pid: ex.pid, tag: ex.tag, from: ex.firstAt, to: to, node: cl.node})
		}
	}
	return spans
}

func (w *world) overlappingIDs() (idSpan, idSpan, bool) {
	spans := w.idSpans()
	for i := range spans {
		for j := i + 1; j < len(spans); j++ {
			a, b := spans[i], spans[j]
			if a.node == b.node && a.pid == b.pid && a.from < b.to && b.from < a.to {
				return a, b, true
			}
		}
	}
	return idSpan{}, idSpan{}, false
}

// ---------------------------------------------------------------------------------------
// C05 inbound: stored before acknowledged; QoS 2 forwarded exactly once per handshake

func genC05(r *Rand, tier, profile string) *Case {
	c := &Case{Profile: "inbound", Knobs: map[string]int64{"manual_pubrel": 1}}
	nodes := r.PickInt([]int{1, 2, 2, 3})
	c.Knobs["nodes"] = int64(nodes)
	if r.Bool(0.3) {
		c.Knobs["maporder"] = int64(1 + r.Intn(1000))
	}
	var ts []tstep
	t := int64(1)
	ns := r.Range(1, 3)
	for i := 1; i <= ns; i++ {
		t += 10
		ts = append(ts, tstep{t, Step{K: "connect", C: i, N: r.Intn(nodes), S: fmt.Sprintf("s%d", i), U: "u", T: "p", I: 3000}})
		f := "i/#"
		if r.Bool(0.2) {
			f = "other/#"
		}
		ts = append(ts, tstep{t + 5, Step{K: "sub", C: i, L: []string{f}, QL: []int{0}, I: 1}})
	}
	np := r.Range(1, 2)
	devids := r.Bool(0.2)
	if devids {
		// session ids are the authentication provider's business: here it hands out device names,
		// one a prefix of the other, and the two publishers (on one node) use packet identifiers
		// whose digits continue them
		c.Knobs["devids"] = 1
		np = 2
	}
	for p := 0; p < np; p++ {
		t += 10
		pn := r.Intn(nodes)
		if devids {
			pn = 0
		}
		ts = append(ts, tstep{t, Step{K: "connect", C: 10 + p, N: pn, S: fmt.Sprintf("p%d", p), U: "u", T: "p", I: 3000}})
	}
	t += 50
	ts = append(ts, tstep{t, Step{K: "settle"}})
	t += settleDur + 50
	type hs struct {
		pid  int
		tag  string
		reps int
		rel  bool
	}
	open := map[int][]*hs{}
	nextPid := map[int]int{}
	if devids {
		nextPid[10] = 20 // "dev1" + 21, 22, ... against "dev12" + 1, 2, ...
	}
	tagN := 0
	n := r.Range(1, 8)
	if tier == "thorough" {
		n = r.Range(1, 16)
	}
	for i := 0; i < n; i++ {
		p := 10 + r.Intn(np)
		t += int64(r.Range(5, 120))
		// fault for the next action?
		if r.Bool(0.35) {
			switch r.Intn(3) {
			case 0:
				ts = append(ts, tstep{t, Step{K: "appendfail", N: r.Intn(nodes), I: 1}})
			default:
				if nodes > 1 {
					a := r.Intn(nodes)
					b := (a + 1 + r.Intn(nodes-1)) % nodes
					ts = append(ts, tstep{t, Step{K: "rpcmode", N: a, I: int64(b), S: r.Pick([]string{"fail", "blackhole", "lossresp", "fail", "disabled"})}})
					// and lift it a little later
					ts = append(ts, tstep{t + int64(r.Range(200, 4000)), Step{K: "rpcmode", N: a, I: int64(b), S: "ok"}})
				}
			}
			t += 2
		}
		switch x := r.Intn(10); {
		case x < 2: // qos 0/1 publish
			nextPid[p]++
			tagN++
			ts = append(ts, tstep{t, Step{K: "pub", C: p, T: "i/x", S: fmt.Sprintf("i%d", tagN), Q: r.Intn(2), I: int64(nextPid[p])}})
		case x < 5: // fresh qos 2 publish
			nextPid[p]++
			tagN++
			h := &hs{pid: nextPid[p], tag: fmt.Sprintf("i%d", tagN)}
			open[p] = append(open[p], h)
			ts = append(ts, tstep{t, Step{K: "pub", C: p, T: "i/x", S: h.tag, Q: 2, I: int64(h.pid)}})
		case x < 6: // repeated publish with an identifier in use
			if len(open[p]) > 0 {
				h := open[p][r.Intn(len(open[p]))]
				h.reps++
				ts = append(ts, tstep{t, Step{K: "pub", C: p, T: "i/x", S: fmt.Sprintf("%sd%d", h.tag, h.reps), Q: 2, I: int64(h.pid), G: r.Bool(0.7)}})
			}
		case x < 9: // pubrel
			if len(open[p]) > 0 && r.Bool(0.85) {
				h := open[p][r.Intn(len(open[p]))]
				h.rel = true
				ts = append(ts, tstep{t, Step{K: "pkt", C: p, S: "pubrel", I: int64(h.pid)}})
				if r.Bool(0.3) { // and once more
					t += int64(r.Range(20, 300))
					ts = append(ts, tstep{t, Step{K: "pkt", C: p, S: "pubrel", I: int64(h.pid)}})
				}
			} else {
				ts = append(ts, tstep{t, Step{K: "pkt", C: p, S: "pubrel", I: int64(900 + r.Intn(5))}})
			}
		default: // let handshake deadlines pass
			t += int64(r.Range(3200, 5500))
		}
	}
	t += 500
	ts = append(ts, tstep{t, Step{K: "sleep", I: 14000}})
	c.Steps = mergeTimelines(ts)
	return c
}

type c05Pub struct {
	stamp   int64
	atMs    int64
	client  int
	pid     int
	qos     int
	tag     string
	hosts   map[int]bool
	srcNode int
	step    int
}

// c05Handshake is a QoS 2 exchange as the publishing client sees it: from the first PUBLISH with
// an identifier until the PUBCOMP for it (or the end of the run).
type c05Handshake struct {
	first     *c05Pub
	tags      map[string]bool
	repeated  bool
	rels      int
	relStamp  int64
	relAt     int64
	compStamp int64
}

func judgeInbound(w *world) {
	endMs := w.nowMs()
	j := w.buildRouteModel()
	hostsOf := func(step int, topic, mount string) map[int]bool {
		h := map[int]bool{}
		for id, fs := range j.active[step] {
			cl := w.clients[id]
			if cl == nil || cl.mount != mount {
				continue
			}
			for f := range fs {
				if refMatch(f, topic) {
					h[cl.node] = true
				}
			}
		}
		return h
	}
	byStamp := map[int64]*c05Pub{}
	byTag := map[string]*c05Pub{}
	for _, p := range j.pubs {
		cl := w.clients[p.client]
		st := w.txStamp(p.step, p.client, tPUBLISH)
		if st < 0 {
			continue
		}
		cp := &c05Pub{stamp: st, atMs: p.atMs, client: p.client, pid: int(w.c.Steps[p.step].I), qos: p.qos, tag: p.tag, hosts: hostsOf(p.step, p.topic, p.mount), srcNode: cl.node, step: p.step}
		byStamp[st] = cp
		byTag[p.tag] = cp
	}
	// failed / uncertain required writes per tag
	failed := map[string]string{}
	uncertain := map[string]bool{}
	for _, a := range w.appends {
		p := byTag[a.Tag]
		if p != nil && a.Forced && p.hosts[a.Node] {
			where := "remote"
			if a.Node == p.srcNode {
				where = "local"
			}
			if _, has := failed[a.Tag]; !has || where == "local" {
				failed[a.Tag] = where + "-append"
			}
		}
	}
	for _, rp := range w.rpcs {
		p := byTag[rp.Tag]
		if p == nil || !p.hosts[rp.Dst] {
			continue
		}
		switch rp.Outcome {
		case "fail", "blackhole", "dead", "peer-not-found", "disabled":
			if _, has := failed[rp.Tag]; !has {
				failed[rp.Tag] = "rpc-" + rp.Outcome
			}
		case "lossresp", "ctx", "ctx-faulted", "remote-error":
			uncertain[rp.Tag] = true
		}
	}
	obs := append([]Obs(nil), w.obs...)
	sort.SliceStable(obs, func(a, b int) bool { return obs[a].Stamp < obs[b].Stamp })

	storedBefore := func(tags map[string]bool, node int, stamp int64) bool {
		for _, a := range w.appends {
			if a.Node == node && !a.Err && tags[a.Tag] && a.Stamp < stamp {
				return true
			}
		}
		return false
	}
	judgeAck := func(ob Obs, first *c05Pub, tags map[string]bool, qos int) {
		for _, h := range sortedInts(first.hosts) {
			if storedBefore(tags, h, ob.Stamp) {
				continue
			}
			where := "remote"
			if h == first.srcNode {
				where = "local"
			}
			reason := "none-injected"
			for t := range tags {
				if failed[t] != "" {
					reason = failed[t]
				}
			}
			w.o.violate("C05", "ack-before-store", first.step, endMs, map[string]string{"where": where, "qos": fmt.Sprint(qos), "failure": reason},
				"client %d got %s for %s (qos %d) but node %d, which hosts a matching subscriber, had not accepted the message into its log at that point (injected failure: %s)", ob.Client, typeNames[ob.P.Type], first.tag, qos, h, reason)
		}
		// "if any of those writes fails, no acknowledgement is sent" is the same verdict: a failed
		// write that was not made good by a later successful one leaves that host without a
		// stored copy, which the loop above reports with the injected failure as its reason.
	}

	judged := 0
	// open: the handshake that still accepts PUBLISH repeats and PUBRELs for (client, id).
	// A PUBLISH sent after the PUBREL of the same identifier starts a new handshake: the
	// client has given up its right to resend, the broker rightly sees a new message.
	open := map[[2]int]*c05Handshake{}
	relEver := map[[2]int]bool{}
	comps := map[[2]int]int{}
	keyTags := map[[2]int]map[string]bool{}
	lastQ1 := map[[2]int]*c05Pub{}
	var all []*c05Handshake
	for _, ob := range obs {
		if ob.Client < 10 {
			continue
		}
		k := [2]int{ob.Client, ob.P.Pid}
		switch {
		case !ob.Rx && ob.P.Type == tPUBLISH && ob.P.Qos == 2:
			p := byStamp[ob.Stamp]
			if p == nil {
				continue
			}
			if h := open[k]; h != nil && h.rels == 0 {
				h.tags[p.tag] = true
				h.repeated = true
			} else {
				h := &c05Handshake{first: p, tags: map[string]bool{p.tag: true}, relStamp: -1, compStamp: -1}
				open[k] = h
				all = append(all, h)
			}
		case !ob.Rx && ob.P.Type == tPUBLISH && ob.P.Qos == 1:
			if p := byStamp[ob.Stamp]; p != nil {
				lastQ1[k] = p
			}
		case !ob.Rx && ob.P.Type == tPUBREL:
			relEver[k] = true
			if h := open[k]; h != nil {
				h.rels++
				if h.relStamp < 0 {
					h.relStamp, h.relAt = ob.Stamp, ob.AtMs
				}
			}
		case ob.Rx && ob.P.Type == tPUBCOMP:
			if !relEver[k] {
				w.o.violate("C05", "ack-without-publish", ob.Step, endMs, map[string]string{"type": "PUBCOMP"}, "client %d received PUBCOMP for identifier %d although it never sent a PUBREL for it", ob.Client, ob.P.Pid)
				continue
			}
			// Which of the client's handshakes with this identifier the broker completed is the
			// broker's business (its own handshake may have timed out in between). What must hold
			// whatever the pairing: the n-th PUBCOMP for (client, id) is preceded, on every
			// hosting node, by at least n successful stores of publishes carrying that id.
			comps[k]++
			judged++
			var first *c05Pub
			for _, h := range all {
				if h.first.client == ob.Client && h.first.pid == ob.P.Pid && h.first.stamp < ob.Stamp {
					if first == nil {
						first = h.first
					}
					for t := range h.tags {
						if keyTags[k] == nil {
							keyTags[k] = map[string]bool{}
						}
						keyTags[k][t] = true
					}
				}
			}
			if first == nil {
				continue
			}
			for _, hn := range sortedInts(first.hosts) {
				stores := 0
				for _, a := range w.appends {
					if a.Node == hn && !a.Err && keyTags[k][a.Tag] && a.Stamp < ob.Stamp {
						stores++
					}
				}
				if stores >= comps[k] {
					continue
				}
				where := "remote"
				if hn == first.srcNode {
					where = "local"
				}
				reason := "none-injected"
				for t := range keyTags[k] {
					if failed[t] != "" {
						reason = failed[t]
					}
				}
				w.o.violate("C05", "ack-before-store", first.step, endMs, map[string]string{"where": where, "qos": "2", "failure": reason},
					"client %d got its PUBCOMP number %d for identifier %d (first publish %s) but node %d, which hosts a matching subscriber, had by then accepted only %d publishes with that identifier into its log (injected failure: %s)", ob.Client, comps[k], ob.P.Pid, first.tag, hn, stores, reason)
			}
		case ob.Rx && ob.P.Type == tPUBACK:
			p := lastQ1[k]
			if p == nil {
				w.o.violate("C05", "ack-without-publish", ob.Step, endMs, map[string]string{"type": "PUBACK"}, "client %d received PUBACK for identifier %d it has not published with", ob.Client, ob.P.Pid)
				continue
			}
			judged++
			judgeAck(ob, p, map[string]bool{p.tag: true}, 1)
		}
	}
	// (c) QoS 2 forwarding, per handshake as the client sees it
	for _, h := range all {
		perNode := map[int]int{}
		for _, a := range w.appends {
			if !h.tags[a.Tag] {
				continue
			}
			if a.Err {
				continue
			}
			perNode[a.Node]++
			if h.relStamp < 0 || a.Stamp < h.relStamp {
				w.o.violate("C05", "forwarded-before-pubrel", h.first.step, endMs, nil, "QoS 2 publish %s from client %d was appended to node %d's log before any PUBREL for it had been sent", h.first.tag, h.first.client, a.Node)
			}
		}
		anyFailure := false
		for t := range h.tags {
			if failed[t] != "" || uncertain[t] {
				anyFailure = true
			}
		}
		for _, n := range sortedInts(boolKeys(perNode)) {
			if perNode[n] > 1 && !anyFailure {
				w.o.violate("C05", "forwarded-twice", h.first.step, endMs, map[string]string{"repeated_publish": fmt.Sprint(h.repeated), "repeated_pubrel": fmt.Sprint(h.rels > 1)},
					"QoS 2 handshake %s from client %d (PUBLISH repeated: %v, PUBREL sent %d times, no failure injected) was stored %d times in node %d's log", h.first.tag, h.first.client, h.repeated, h.rels, perNode[n], n)
			}
		}
		cl := w.clients[h.first.client]
		if h.relStamp >= 0 && h.relAt-h.first.atMs < 2000 && !anyFailure && !h.repeated && w.clientAliveThrough(cl) {
			for _, n := range sortedInts(h.first.hosts) {
				if perNode[n] != 1 {
					w.o.violate("C05", "not-forwarded", h.first.step, endMs, nil, "QoS 2 handshake %s (PUBREL %dms after PUBLISH, no failure injected) was stored %d times in node %d's log, want exactly once", h.first.tag, h.relAt-h.first.atMs, perNode[n], n)
				}
			}
			w.o.probe("qos2_clean_handshakes")
		}
		if h.rels > 1 {
			w.o.probe("qos2_repeated_pubrel")
		}
		if h.repeated {
			w.o.probe("qos2_repeated_publish")
		}
		if h.relStamp < 0 {
			w.o.probe("qos2_handshake_without_pubrel")
		}
	}
	w.o.Stats["publishes_with_failed_required_write"] += int64(len(failed))
	w.o.Stats["acks_judged"] += int64(judged)
	w.o.Nontrivial = judged > 0 || len(all) > 0
}

func boolKeys(m map[int]int) map[int]bool {
	o := map[int]bool{}
	for k := range m {
		o[k] = true
	}
	return o
}

func sortedInts(m map[int]bool) []int {
	var out []int
	for k := range m {
		out = append(out, k)
	}
	sort.Ints(out)
	return out
}

func runC05(t *testing.T, c *Case) *Outcome {
	return runE1(t, c, profileHooks{judge: judgeInbound})
}

func init() {
	register(&Check{ID: "C03", Level: "exploration", Build: "maporder", Gen: genC03, Run: runC03, QuickS: 30, ThoroughS: 480,
		Rule: "a case = 1 node, 1-3 subscribers (QoS 1 or 2 subscriptions) each with a per-message response script (acknowledge, stay silent for 1-4 deadlines, wrong packet type, wrong identifier, never, silent on PUBREL) and optional cut/close/DISCONNECT mid-exchange, 1-6 publishes some at the same instant; judged per inbound exchange over the client-observed timeline; non-trivial when >=1 QoS>0 exchange judged; distinct by hash of the scenario",
		Real: e1Real, Stub: e1Stub,
		Assume: []string{"D = 5.1 s (3 s deadline + 1 s rounding + 1 s sweep + 0.1 s) bounds the gap between transmissions; fault-free network so D is not a timing oracle under faults", "the pool baseline is checked by draining the writer's pool at the end of the run (VerifWriterPool)"}})
	register(&Check{ID: "C05", Level: "fault_enumeration", Build: "maporder", Gen: genC05, Run: runC05, QuickS: 30, ThoroughS: 480,
		Rule: "a case = 1-3 nodes, 1-3 subscribers placed over the nodes, 1-2 publishers sending PUBLISH QoS 0/1/2 with fresh or repeated identifiers, PUBREL (matching, repeated, unknown) and pauses beyond the 3 s handshake deadline, with local append errors and remote failures (fast failure, black hole, lost response) injected before sampled actions; every acknowledgement and every QoS 2 handshake is judged on the globally stamped event order; non-trivial when >=1 acknowledgement or handshake judged; distinct by hash of the scenario",
		Real: e1Real, Stub: e1Stub,
		Assume: []string{"H(p) is computed from subscriptions that were settled before the publishes", "a lost RPC response makes the outcome of the remote write unknown to the publisher: the acknowledgement may be withheld, clause (b) is not applied", "fault dimension is sampled per action (append error on one node, or one node pair failing), not enumerated as subsets"}})
}

// ---------------------------------------------------------------------------------------
// C06, system-level variant: identifiers in flight on one node are pairwise distinct.
// The writer allocates every outbound QoS>0 identifier of a node from one pool, so two
// exchanges that are open at the same time on that node - on whichever connections - must
// carry different identifiers, and once everything is complete the pool is back to full.

func judgeIDs(w *world) {
	endMs := w.nowMs()
	type span struct {
		client, pid int
		tag         string
		from, to    int64
		node        int
	}
	var spans []span
	ids := make([]int, 0, len(w.clients))
	for id := range w.clients {
		ids = append(ids, id)
	}
	sort.Ints(ids)
	for _, id := range ids {
		cl := w.clients[id]
		f := w.lifeFactsOf(cl)
		for _, ex := range cl.exch {
			if ex.qos == 0 {
				continue
			}
			to := endMs + 1
			// the identifier goes back to the pool when the broker processes the client's final
			// acknowledgement: PUBACK (QoS 1) or PUBCOMP (QoS 2), sent by the scripted client
			final := tPUBACK
			if ex.qos == 2 {
				final = tPUBCOMP
			}
			for _, ob := range w.obs {
				if !ob.Rx && ob.Client == id && ob.Epoch == cl.epoch && ob.P.Type == final && ob.P.Pid == ex.pid && ob.AtMs >= ex.firstAt {
					to = ob.AtMs
					break
				}
			}
			if f.cause != "" && f.causeAt < to {
				to = f.causeAt // the exchange is void once its session has ended
			}
			spans = append(spans, span{client: id, pid: ex.pid, tag: ex.tag, from: ex.firstAt, to: to, node: cl.node})
		}
	}
	// identifiers the harness holds are outstanding: the broker must not put one on the wire
	for _, sp := range spans {
		if sp.node == 0 && w.heldIDs[sp.pid] {
			w.o.violate("C06", "duplicate-id-in-flight", len(w.c.Steps), endMs, map[string]string{"same_connection": "held"},
				"identifier %d is outstanding (taken from the pool before the run and never returned) and was handed out for %s to client %d at %dms", sp.pid, sp.tag, sp.client, sp.from)
			return
		}
		if sp.pid < 1 || sp.pid > 65535 {
			w.o.violate("C06", "id-out-of-range", len(w.c.Steps), endMs, nil, "identifier %d was used for %s to client %d", sp.pid, sp.tag, sp.client)
			return
		}
	}
	if len(w.heldIDs) > 0 {
		w.o.probe("runs_with_small_pool")
		open := 0
		for _, sp := range spans {
			if sp.node == 0 && sp.to > endMs {
				open++
			}
		}
		if int64(open) >= w.c.knob("pool_free", 0) {
			w.o.probe("pool_exhausted_at_end")
		}
	}
	judged := 0
	for i := range spans {
		for j := i + 1; j < len(spans); j++ {
			a, b := spans[i], spans[j]
			if a.node != b.node || a.pid != b.pid {
				continue
			}
			judged++
			if a.from < b.to && b.from < a.to {
				w.o.violate("C06", "duplicate-id-in-flight", len(w.c.Steps), endMs, map[string]string{"same_connection": fmt.Sprint(a.client == b.client)},
					"identifier %d was in flight for %s to client %d from %dms to %dms and was handed out again for %s to client %d at %dms", a.pid, a.tag, a.client, a.from, a.to, b.tag, b.client, b.from)
				w.o.Stats["id_pairs_compared"] += int64(judged)
				return
			}
		}
	}
	w.o.Stats["id_pairs_compared"] += int64(judged)
	w.o.Stats["exchanges_tracked"] += int64(len(spans))
	// and the pool drains back to full (same clause as C03 R5)
	allDone := true
	for _, id := range ids {
		cl := w.clients[id]
		if len(cl.open) > 0 && w.lifeFactsOf(cl).cause == "" {
			allDone = false
		}
	}
	if pool := wasp.VerifWriterPool(w.nodes[0].writer); pool != nil && allDone {
		free := 0
		for i := 0; i < 70000; i++ {
			if pool.Get() < 1 {
				break
			}
			free++
		}
		if want := 65535 - len(w.heldIDs); free != want {
			w.o.violate("C06", "identifier-leak", len(w.c.Steps), endMs, map[string]string{"sign": fmt.Sprint(free < want)}, "every exchange is complete or its session gone, yet the writer's pool has %d free identifiers, want %d", free, want)
		}
		w.o.probe("pool_baseline_checked")
	}
	w.o.Nontrivial = len(spans) >= 2
}

// genC06E1: the retransmission scenario of C03 with more traffic while exchanges are pending
func genC06E1(r *Rand, tier, profile string) *Case {
	c := genC03(r, tier, profile)
	c.Profile = "ids"
	// no displaced subscribers here (C03 has them): this variant's spans end with the client's own
	// acknowledgement or the end of its session, and the broker may take a displaced session's
	// identifiers back as soon as its successor has connected
	kept := c.Steps[:0]
	for _, s := range c.Steps {
		if s.K == "connect" && s.C >= 11 && s.C <= 13 {
			if len(kept) > 0 {
				kept[len(kept)-1].W = false
			}
			continue
		}
		kept = append(kept, s)
	}
	c.Steps = kept
	if r.Bool(0.4) {
		c.Knobs["pool_free"] = int64(r.Range(1, 4))
	}
	// more publishes spread over the observation period, so that identifiers are allocated while
	// earlier exchanges are still waiting for their (late, wrong or missing) acknowledgements
	var extra []Step
	n := r.Range(2, 10)
	ns := 0
	for _, s := range c.Steps {
		if s.K == "ackplan" {
			ns++
		}
	}
	wf := -1
	if ns > 0 && r.Bool(0.25) {
		wf = r.Intn(n) // one subscriber's link dies under the broker's write of this publish
	}
	for i := 0; i < n; i++ {
		if i == wf {
			extra = append(extra, Step{K: "writefail", At: int64(r.Range(100, 2000)), C: 1 + r.Intn(ns)})
		}
		extra = append(extra, Step{K: "pub", At: int64(r.Range(200, 4000)), C: 0, T: "r/x", S: fmt.Sprintf("x%d", i+1), Q: r.Intn(2), I: int64(100 + i)})
	}
	// insert before the final sleep
	last := len(c.Steps) - 1
	c.Steps = append(append(append([]Step(nil), c.Steps[:last]...), extra...), c.Steps[last])
	return c
}

func runC06E1(t *testing.T, c *Case) *Outcome {
	return runE1(t, c, profileHooks{judge: judgeIDs, onStart: func(w *world) {
		// "pool_free": the harness itself takes all but k identifiers out of the writer's pool
		// (as if that many exchanges were open), so that the scenario's handful of slow
		// subscribers exhausts it
		k := w.c.knob("pool_free", 0)
		if k <= 0 {
			return
		}
		pool := wasp.VerifWriterPool(w.nodes[0].writer)
		if pool == nil {
			return
		}
		w.heldIDs = map[int]bool{}
		for i := int64(0); i < 65535-k; i++ {
			id := pool.Get()
			if id < 1 {
				break
			}
			w.heldIDs[int(id)] = true
		}
	}})
}

func init() {
	register(&Check{ID: "C06", Variant: "e1", Level: "exploration", Build: "maporder", Gen: genC06E1, Run: runC06E1, QuickS: 20, ThoroughS: 300,
		Rule: "system-level variant: the retransmission scenario (subscribers acknowledging late, wrongly or never, for PUBLISH and for PUBREL) with further publishes while exchanges are pending; identifiers of exchanges open at the same time on one node must be pairwise distinct and the writer's pool must drain back to full; non-trivial when >=2 QoS>0 exchanges tracked",
		Real: e1Real, Stub: e1Stub,
		Assume: []string{"an exchange holds its identifier from the first PUBLISH until the client's PUBACK/PUBCOMP or the end of its session"}})
}
