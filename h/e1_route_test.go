package h

import (
	"fmt"
	"sort"
	"strings"
	"testing"
)

// ---------------------------------------------------------------------------------------
// shared model over a scenario: who is subscribed to what, who published what

type subModel struct {
	filters map[string]int // filter -> qos
}

type pubInfo struct {
	step    int
	client  int
	topic   string
	tag     string
	qos     int
	retain  bool
	mount   string
	acked   bool
	ackedAt int64
	atMs    int64
	payload string
}

// ackedControl reports whether the broker answered control packet (SUBSCRIBE/UNSUBSCRIBE) pid
// sent at step.
func (w *world) ackSeen(client, epoch, typ, pid int, afterStamp int64) (bool, int64) {
	for _, ob := range w.obs {
		if ob.Rx && ob.Client == client && ob.Epoch == epoch && ob.P.Type == typ && ob.P.Pid == pid && ob.Stamp > afterStamp {
			return true, ob.AtMs
		}
	}
	return false, 0
}

func (w *world) txStamp(step, client int, typ int) int64 {
	for _, ob := range w.obs {
		if !ob.Rx && ob.Step == step && ob.Client == client && ob.P.Type == typ {
			return ob.Stamp
		}
	}
	return -1
}

// deliveries counts completed-or-open inbound exchanges per tag for a client epoch.
func deliveries(cl *simClient) map[string]int {
	m := map[string]int{}
	for _, ex := range cl.exch {
		m[ex.tag]++
	}
	return m
}

func classifyMatch(filters []string, topic string) string {
	if strings.Contains("/"+topic+"/", "//") {
		return "empty-level"
	}
	for _, f := range filters {
		if strings.Contains("/"+f+"/", "//") {
			return "empty-level"
		}
	}
	for _, f := range filters {
		if strings.HasSuffix(f, "/#") && strings.TrimSuffix(f, "/#") == topic {
			return "hash-parent"
		}
	}
	for _, f := range filters {
		if i := strings.Index(f, "#"); i >= 0 && i != len(f)-1 {
			return "hash-inside"
		}
	}
	return "general"
}

func (w *world) clientAliveThrough(cl *simClient) bool {
	return cl != nil && cl.connack != nil && cl.connack.RC == 0 && cl.downAt < 0 && cl.disconnAt < 0 && !cl.sawClose && cl.garbage == ""
}

// ---------------------------------------------------------------------------------------
// C01 route

var c01Levels = []string{"a", "b", "c", "+", "#", ""}
var c01TopicLevels = []string{"a", "b", "c", ""}

func genFilter(r *Rand, allowOdd bool) string {
	n := r.Range(1, 4)
	if r.Bool(0.5) {
		n = r.Range(1, 2)
	}
	parts := make([]string, n)
	for i := range parts {
		x := r.Intn(20)
		switch {
		case x < 12:
			parts[i] = r.Pick([]string{"a", "b", "c"})
		case x < 16:
			parts[i] = "+"
		case x < 18:
			if i == n-1 || (allowOdd && r.Bool(0.15)) {
				parts[i] = "#"
			} else {
				parts[i] = "a"
			}
		default:
			if allowOdd {
				parts[i] = ""
			} else {
				parts[i] = "b"
			}
		}
	}
	f := strings.Join(parts, "/")
	if f == "" {
		return "a"
	}
	return f
}

func genTopic(r *Rand, allowEmpty bool) string {
	n := r.Range(1, 4)
	if r.Bool(0.5) {
		n = r.Range(1, 2)
	}
	parts := make([]string, n)
	for i := range parts {
		if allowEmpty && r.Bool(0.08) {
			parts[i] = ""
		} else {
			parts[i] = r.Pick([]string{"a", "b", "c"})
		}
	}
	t := strings.Join(parts, "/")
	if t == "" {
		return "a"
	}
	return t
}

func gossipKnobs(r *Rand, c *Case) {
	if c.knob("nodes", 1) > 1 {
		c.Knobs["gossip_drop_pct"] = int64(r.PickInt([]int{0, 0, 10, 30, 60}))
		c.Knobs["gossip_dup_pct"] = int64(r.PickInt([]int{0, 10, 30}))
		c.Knobs["gossip_maxdelay_ms"] = int64(r.PickInt([]int{10, 30, 100, 400}))
		if sp := r.PickInt([]int{0, 0, 30, 70}); sp > 0 {
			c.Knobs["gossip_split_pct"] = int64(sp)
		}
	}
	if r.Bool(0.3) {
		c.Knobs["maporder"] = int64(1 + r.Intn(1000))
	}
}

func genC01(r *Rand, tier, profile string) *Case {
	c := &Case{Profile: "route", Knobs: map[string]int64{}}
	nodes := r.PickInt([]int{1, 1, 2, 3})
	c.Knobs["nodes"] = int64(nodes)
	gossipKnobs(r, c)
	nc := r.Range(2, 5)
	odd := r.Bool(0.5)
	for i := 0; i < nc; i++ {
		c.Steps = append(c.Steps, Step{K: "connect", At: int64(r.Range(1, 40)), C: i, N: r.Intn(nodes), S: fmt.Sprintf("cl%d", i), U: "u", T: "p", I: 120})
	}
	pid := 1
	tag := 0
	rounds := 1
	if tier == "thorough" && r.Bool(0.5) {
		rounds = r.Range(2, 3)
	}
	active := map[int][]string{}
	for round := 0; round < rounds; round++ {
		nm := r.Range(1, 8)
		for i := 0; i < nm; i++ {
			cl := r.Intn(nc)
			if len(active[cl]) > 0 && r.Bool(0.3) {
				f := active[cl][r.Intn(len(active[cl]))]
				if r.Bool(0.6) {
					c.Steps = append(c.Steps, Step{K: "unsub", At: int64(r.Range(1, 60)), C: cl, L: []string{f}, I: int64(pid)})
				} else { // re-subscribe with another qos
					c.Steps = append(c.Steps, Step{K: "sub", At: int64(r.Range(1, 60)), C: cl, L: []string{f}, QL: []int{r.Intn(2)}, I: int64(pid)})
				}
				pid++
				continue
			}
			k := r.Range(1, 3)
			var fs []string
			var qs []int
			for j := 0; j < k; j++ {
				fs = append(fs, genFilter(r, odd))
				qs = append(qs, r.Intn(2))
			}
			active[cl] = append(active[cl], fs...)
			c.Steps = append(c.Steps, Step{K: "sub", At: int64(r.Range(1, 60)), C: cl, L: fs, QL: qs, I: int64(pid)})
			pid++
		}
		c.Steps = append(c.Steps, Step{K: "settle", At: 50})
		if r.Bool(0.25) {
			// one client's link dies under the broker's next write to it, while it is still a
			// registered recipient: whatever happens to it, the other sessions' copies are due
			c.Steps = append(c.Steps, Step{K: "writefail", At: 1, C: r.Intn(nc)})
		}
		np := r.Range(1, 8)
		for i := 0; i < np; i++ {
			tag++
			c.Steps = append(c.Steps, Step{K: "pub", At: int64(r.Range(1, 80)), C: r.Intn(nc), T: genTopic(r, odd), S: fmt.Sprintf("m%d", tag), Q: r.Intn(2), I: int64(pid)})
			pid++
		}
		c.Steps = append(c.Steps, Step{K: "settle", At: 300})
	}
	return c
}

// replayModel walks the scenario and returns, for each publish step, the active filter sets
// of every client at that moment (only sub/unsub steps the broker acknowledged count).
type routeJudgement struct {
	pubs   []pubInfo
	active map[int]map[int]map[string]int // pub step -> client -> filter -> qos
	pairs  map[string]bool
}

func (w *world) buildRouteModel() *routeJudgement {
	j := &routeJudgement{active: map[int]map[int]map[string]int{}, pairs: map[string]bool{}}
	cur := map[int]map[string]int{}
	unstable := map[int]bool{}
	epochOf := map[int]int{}
	for si, s := range w.c.Steps {
		switch s.K {
		case "connect":
			cur[s.C] = map[string]int{}
			if cl := w.clients[s.C]; cl != nil {
				// find the epoch this connect step created
				epochOf[s.C] = epochAt(w, s.C, si)
			}
		case "sub", "unsub":
			typ, ack := tSUBSCRIBE, tSUBACK
			if s.K == "unsub" {
				typ, ack = tUNSUBSCRIBE, tUNSUBACK
			}
			st := w.txStamp(si, s.C, typ)
			if st < 0 {
				continue // not sent (client not connected)
			}
			ok, _ := w.ackSeen(s.C, epochOf[s.C], ack, int(s.I), st)
			if !ok {
				unstable[s.C] = true
				w.o.probe("control_packet_unanswered")
				continue
			}
			if cur[s.C] == nil {
				cur[s.C] = map[string]int{}
			}
			for i, f := range s.L {
				if s.K == "sub" {
					q := 0
					if i < len(s.QL) {
						q = s.QL[i]
					}
					cur[s.C][f] = q
				} else {
					delete(cur[s.C], f)
				}
			}
		case "cut", "close", "stopnode":
			// handled through clientAliveThrough
		case "pub":
			if w.txStamp(si, s.C, tPUBLISH) < 0 {
				continue
			}
			snap := map[int]map[string]int{}
			for c, fs := range cur {
				if unstable[c] {
					continue
				}
				m := map[string]int{}
				for f, q := range fs {
					m[f] = q
				}
				snap[c] = m
			}
			j.active[si] = snap
			pi := pubInfo{step: si, client: s.C, topic: s.T, tag: s.S, qos: s.Q, retain: s.F, atMs: w.stepAt[si]}
			if cl := w.clients[s.C]; cl != nil {
				pi.mount = cl.mount
			}
			j.pubs = append(j.pubs, pi)
		}
	}
	return j
}

func epochAt(w *world, client, step int) int {
	e := 0
	for si, s := range w.c.Steps {
		if si >= step {
			break
		}
		if s.K == "connect" && s.C == client {
			e++
		}
	}
	return e
}

func sortedFilters(m map[string]int) []string {
	var fs []string
	for f := range m {
		fs = append(fs, f)
	}
	sort.Strings(fs)
	return fs
}

func judgeRoute(prop string) func(w *world) {
	return func(w *world) {
		j := w.buildRouteModel()
		ids := make([]int, 0, len(w.clients))
		for id := range w.clients {
			ids = append(ids, id)
		}
		sort.Ints(ids)
		judged, wild := 0, 0
		for _, p := range j.pubs {
			for _, id := range ids {
				cl := w.clients[id]
				if !w.clientAliveThrough(cl) || cl.epoch != 0 {
					continue
				}
				fs := j.active[p.step][id]
				if fs == nil {
					continue
				}
				want := 0
				if cl.mount == p.mount {
					for f := range fs {
						if refMatch(f, p.topic) {
							want++
						}
						w.o.Stats["pairs_judged"]++
						w.o.cover(f + " ~ " + p.topic)
						if strings.ContainsAny(f, "+#") {
							wild++
						}
					}
				}
				got := 0
				for _, ex := range cl.exch {
					if ex.tag == p.tag {
						got++
						if want > 0 && (ex.topic != p.topic) {
							w.o.violate(prop, "topic-altered", p.step, w.nowMs(), nil, "client %d received %s on topic %q, it was published on %q", id, p.tag, ex.topic, p.topic)
						}
					}
				}
				judged++
				if got == want {
					continue
				}
				kind := "missing-delivery"
				if got > want {
					kind = "extra-delivery"
				}
				fl := sortedFilters(fs)
				w.o.violate(prop, kind, p.step, w.nowMs(), map[string]string{"class": classifyMatch(fl, p.topic)},
					"publish %s on %q (qos %d, from client %d on node %d): client %d (node %d) with active filters %q received %d copies, the reference says %d",
					p.tag, p.topic, p.qos, p.client, w.clients[p.client].node, id, cl.node, fl, got, want)
			}
		}
		w.o.Stats["deliveries_judged"] += int64(judged)
		w.o.Nontrivial = judged > 0 && wild > 0
	}
}

func runC01(t *testing.T, c *Case) *Outcome {
	return runE1(t, c, profileHooks{judge: judgeRoute(c.Prop)})
}

var e1Real = []string{"wasp connection manager, packet processor, writer, publish distributor, scheduler, node member manager, RPC handlers", "wasp/ack, wasp/expiration, wasp/sessions, wasp/distributed, crdt, subscriptions, topics, wasp/format", "wasp/messages over vx-labs/commitlog on tmpfs (real files, real mmap)", "vx-labs/mqtt-protocol decoder/encoder (broker side)", "memberlist.TransmitLimitedQueue", "grpc ClientConn up to the unary interceptor", "google/uuid (seeded)"}
var e1Stub = []string{"TCP/TLS/WS listeners -> simconn (buffered, deadline-aware, fault-injecting)", "memberlist gossip/push-pull/failure detector -> simgossip", "cluster pool + gRPC wire -> interceptor calling the target node's real handler", "wall clock -> testing/synctest fake clock", "CRDT clock -> strictly increasing stamp from fake time", "map iteration order -> instrumenter (sorted or seeded permutation)", "auth backend -> table stub unless the profile says otherwise", "MQTT clients -> scripted state machines with their own codec", "taps, audit, prometheus, zap -> nil/none/ignored/nop"}

func init() {
	register(&Check{ID: "C01", Level: "exploration", Build: "maporder", Gen: genC01, Run: runC01, QuickS: 25, ThoroughS: 420,
		Rule: "a case = 1-3 nodes, 2-5 clients, subscribe/unsubscribe/re-subscribe history over 1-4 level filters from {a,b,c,+,#,empty}, settle, publish burst over 1-4 level topics from {a,b,c,empty}, settle, judged per (publish, session); non-trivial when >=1 delivery judged with >=1 wildcard filter active; distinct by hash of the scenario",
		Real: e1Real, Stub: e1Stub,
		Assume: []string{"sessions judged are those that stayed connected and whose SUBSCRIBE/UNSUBSCRIBE packets were all acknowledged", "delivery QoS is not judged, only the number of copies", "gossip loss/duplication/delay is active before each settle; a settle ends with two push-pull rounds"}})
}

// ---------------------------------------------------------------------------------------
// C02 pipeline: acknowledged publishes reach every stable matching subscriber, intact

var c02Prefills = []int{0, 0, 0, 1, 9, 10, 11, 499, 500, 501, 999, 1000, 1499, 1500, 1501, 1999, 2000, 2001}

func genC02(r *Rand, tier, profile string) *Case {
	c := &Case{Profile: "pipeline", Knobs: map[string]int64{"nodes": 1}}
	if r.Bool(0.35) {
		c.Knobs["nodes"] = 2
	}
	if r.Bool(0.3) {
		c.Knobs["maporder"] = int64(1 + r.Intn(1000))
	}
	pre := c02Prefills[r.Intn(len(c02Prefills))]
	if tier != "thorough" && pre > 20 && r.Bool(0.7) {
		pre = c02Prefills[r.Intn(6)]
	}
	c.Knobs["prefill"] = int64(pre)
	nodes := int(c.Knobs["nodes"])
	nsub := r.Range(1, 3)
	npub := r.Range(1, 3)
	filters := []string{"t/#", "t/+", "t/x", "#", "+/x"}
	slow := r.Bool(0.3)
	if nodes == 2 && r.Bool(0.7) {
		// subscribers of the other node (not judged here, cross-node delivery is C14's): their
		// subscriptions sit next to the local ones in every match list
		for i := 0; i < r.Range(1, 2); i++ {
			c.Steps = append(c.Steps, Step{K: "connect", At: int64(r.Range(1, 10)), C: 5 + i, N: 1, S: fmt.Sprintf("far%d", i), U: "u", T: "p", I: 600})
			c.Steps = append(c.Steps, Step{K: "sub", At: int64(r.Range(1, 10)), C: 5 + i, L: []string{r.Pick(filters)}, QL: []int{r.Intn(3)}, I: 1})
		}
		c.Steps = append(c.Steps, Step{K: "sleep", At: 5, I: int64(r.Range(50, 600))})
	}
	for i := 0; i < nsub; i++ {
		c.Steps = append(c.Steps, Step{K: "connect", At: int64(r.Range(1, 20)), C: i, N: 0, S: fmt.Sprintf("sub%d", i), U: "u", T: "p", I: 600})
		if slow && r.Bool(0.6) {
			// a subscriber that lets acknowledgement deadlines pass now and then (still connected)
			var plan []string
			for k := 0; k < 40; k++ {
				plan = append(plan, r.Pick([]string{"ack", "ack", "ack", "silent1", "silent2"}))
			}
			c.Steps = append(c.Steps, Step{K: "ackplan", At: 1, C: i, L: plan})
		}
		c.Steps = append(c.Steps, Step{K: "sub", At: int64(r.Range(1, 20)), C: i, L: []string{r.Pick(filters)}, QL: []int{r.Intn(3)}, I: int64(1 + i)})
	}
	for i := 0; i < npub; i++ {
		c.Steps = append(c.Steps, Step{K: "connect", At: int64(r.Range(1, 20)), C: 10 + i, N: r.Intn(nodes), S: fmt.Sprintf("pub%d", i), U: "u", T: "p", I: 600})
	}
	c.Steps = append(c.Steps, Step{K: "settle", At: 20})
	n := r.Range(1, 40)
	if tier == "thorough" {
		switch r.Intn(10) {
		case 0:
			n = r.Range(1400, 2600)
		case 1, 2:
			n = r.Range(400, 1100)
		default:
			n = r.Range(1, 120)
		}
	} else if r.Bool(0.05) {
		n = r.Range(480, 560)
	}
	// a subscriber that stops reading for a while (full send buffer): the writer waits on it while
	// publishers carry on, the log grows, rolls and - with a pre-filled log - reaches a truncation
	// point; nothing the writer has not read back yet may be truncated away
	stallAt := -1
	if r.Bool(0.08) {
		// the stall begins a little below a segment that the truncation at offset 2000 removes
		c.Knobs["prefill"] = int64(r.Range(1400, 1480))
		n = r.Range(680, 760)
		stallAt = r.Range(0, 10)
	}
	pids := map[int]int{}
	slowRel := n <= 40 && r.Bool(0.2)
	if slowRel {
		c.Knobs["manual_pubrel"] = 1
	}
	for i := 0; i < n; i++ {
		p := 10 + r.Intn(npub)
		pids[p] = pids[p]%60000 + 1
		pad := 0
		switch r.Intn(12) {
		case 0:
			pad = r.Range(1000, 65000)
		case 1, 2:
			pad = r.Range(1, 300)
		}
		gap := int64(r.Range(1, 12))
		if r.Bool(0.05) {
			gap = int64(r.Range(100, 1500))
		}
		q := 1 + r.Intn(2)
		if stallAt < 0 && n <= 60 && r.Bool(0.04) {
			// the node's own log refuses this write: then no acknowledgement is due - and if one
			// comes, the message had better be delivered
			c.Steps = append(c.Steps, Step{K: "appendfail", At: 1, N: 0, I: 1})
		}
		if i == stallAt {
			// shorter than the first retransmission deadline (3 s, swept up to half a second early):
			// only the writer waits on the stalled connection, so the order in which things resume is
			// not left to the Go runtime (longer stalls belong to the controlled scheduler)
			c.Steps = append(c.Steps, Step{K: "stall", At: 1, C: r.Intn(nsub), I: int64(r.Range(2000, 2400))})
		}
		if stallAt >= 0 {
			gap, pad = int64(r.Range(1, 4)), 0
		}
		c.Steps = append(c.Steps, Step{K: "pub", At: gap, C: p, T: "t/x", S: fmt.Sprintf("m%d", i+1), Q: q, I: int64(pids[p]), J: int64(pad)})
		if slowRel && q == 2 {
			// the publisher releases by hand: at once, a little later, or only after the broker's
			// 3 s deadline for the handshake has passed (then no PUBCOMP is due, and none may come
			// unless the message was stored after all)
			c.Steps = append(c.Steps, Step{K: "pkt", At: int64(r.PickInt([]int{2, 2, 60, 900, 4600})), C: p, S: "pubrel", I: int64(pids[p])})
		}
	}
	if slow || stallAt >= 0 {
		c.Steps = append(c.Steps, Step{K: "sleep", At: 10, I: 16000})
	} else {
		c.Steps = append(c.Steps, Step{K: "sleep", At: 10, I: 1500})
	}
	return c
}

func judgePipeline(w *world) {
	j := w.buildRouteModel()
	ids := make([]int, 0, len(w.clients))
	for id := range w.clients {
		ids = append(ids, id)
	}
	sort.Ints(ids)
	// index of what each publisher saw acknowledged
	acked := map[string]bool{}
	for _, p := range j.pubs {
		cl := w.clients[p.client]
		if cl == nil {
			continue
		}
		typ := tPUBACK
		if p.qos == 2 {
			typ = tPUBCOMP
		}
		st := w.txStamp(p.step, p.client, tPUBLISH)
		if ok, _ := w.ackSeen(p.client, cl.epoch, typ, int(w.c.Steps[p.step].I), st); ok {
			acked[p.tag] = true
		}
	}
	// what was sent, byte for byte
	sent := map[string]string{}
	for _, ob := range w.obs {
		if !ob.Rx && ob.P.Type == tPUBLISH {
			sent[tagOf(ob.P.Payload)] = string(ob.P.Payload)
		}
	}
	judged := 0
	totalAppends := int64(len(w.appends)) + w.c.knob("prefill", 0)
	for _, p := range j.pubs {
		if !acked[p.tag] {
			w.o.probe("publish_not_acknowledged")
			continue
		}
		for _, id := range ids {
			cl := w.clients[id]
			if id >= 10 || !w.clientAliveThrough(cl) || cl.node != 0 {
				continue
			}
			fs := j.active[p.step][id]
			match := false
			for f := range fs {
				if refMatch(f, p.topic) {
					match = true
				}
			}
			if !match {
				continue
			}
			judged++
			got := 0
			for _, ex := range cl.exch {
				if ex.tag != p.tag {
					continue
				}
				got++
				if ex.topic != p.topic || ex.payload != sent[p.tag] {
					w.o.violate("C02", "corrupted-delivery", p.step, w.nowMs(), nil, "subscriber %d received %s with topic %q and %d payload bytes; published topic %q, %d bytes", id, p.tag, ex.topic, len(ex.payload), p.topic, len(sent[p.tag]))
				}
			}
			if got == 0 {
				// offset of this message in node 0's log, for the record
				off := int64(-1)
				cnt := w.c.knob("prefill", 0)
				for _, a := range w.appends {
					if a.Node == 0 && !a.Err {
						if a.Tag == p.tag {
							off = cnt
							break
						}
						cnt++
					}
				}
				pos := "other"
				switch {
				case off == 0:
					pos = "offset-0"
				case off >= 0 && off%500 == 0:
					pos = "segment-start"
				}
				w.o.violate("C02", "acked-but-lost", p.step, w.nowMs(), map[string]string{"position": pos},
					"publish %s (qos %d) was acknowledged to client %d but subscriber %d (connected throughout, filters %q) never received it; it sits at offset %d of node 0's log", p.tag, p.qos, p.client, id, sortedFilters(fs), off)
			}
		}
	}
	w.o.Stats["deliveries_judged"] += int64(judged)
	if totalAppends > 500 {
		w.o.probe("segment_roll_crossed")
	}
	if totalAppends > 2000 {
		w.o.probe("truncation_point_crossed")
	}
	if w.c.knob("prefill", 0) == 0 && judged > 0 {
		w.o.probe("offset0_delivery_judged")
	}
	w.o.Nontrivial = judged > 0
}

func runC02(t *testing.T, c *Case) *Outcome {
	return runE1(t, c, profileHooks{judge: judgePipeline})
}

func init() {
	register(&Check{ID: "C02", Level: "exploration", Build: "maporder", Gen: genC02, Run: runC02, QuickS: 25, ThoroughS: 480,
		Rule: "a case = message log pre-filled with K entries (K around 0,1,10,500,1000,1500,2000), 1-3 subscribers on node 0 with matching filters that stay connected and acknowledge, 1-3 publishers (QoS 1/2, payload 0-64 KiB) issuing 1-40 (thorough: up to 2600) publishes; every acknowledged publish is judged against every stable matching subscriber; non-trivial when >=1 delivery judged; distinct by hash of the scenario",
		Real: e1Real, Stub: e1Stub,
		Assume: []string{"fault-free network; subscribers acknowledge promptly", "a publish counts as acknowledged when the publisher observed PUBACK (QoS 1) or PUBCOMP (QoS 2)"}})
}

// ---------------------------------------------------------------------------------------
// C07 retained

var c07Topics = []string{"a", "a/b", "a/b/c", "a/c", "b"}

// ---------------------------------------------------------------------------------------
// C07 variant "race": a retained publish and a matching SUBSCRIBE handed to the broker in the
// same driver turn, under seeded preemption (lockstep build): whichever way the two interleave
// inside the broker, the subscriber must end up with the broker's own final retained value -
// through the replay, or through the live copy if its subscription came first.

func genC07Race(r *Rand, tier, profile string) *Case {
	c := &Case{Profile: "retained-race", Knobs: map[string]int64{"nodes": 1}}
	c.Knobs["sched"] = 1
	if r.Bool(0.4) {
		// a second, passive node: what it is told by gossip must agree with what the first node
		// stored, before any anti-entropy exchange
		c.Knobs["nodes"] = 2
	}
	topic := r.Pick([]string{"a", "a/b", "a/b/c"})
	var ts []tstep
	t := int64(1)
	ts = append(ts, tstep{t, Step{K: "connect", C: 0, N: 0, S: "pubr", U: "u", T: "p", I: 3000}})
	ts = append(ts, tstep{t + 3, Step{K: "connect", C: 1, N: 0, S: "subr", U: "u", T: "p", I: 3000}})
	np := 1
	if r.Bool(0.3) {
		np = 2
		ts = append(ts, tstep{t + 5, Step{K: "connect", C: 2, N: 0, S: "pubr2", U: "u", T: "p", I: 3000}})
	}
	t += 20
	if r.Bool(0.6) {
		ts = append(ts, tstep{t, Step{K: "pub", C: 0, T: topic, S: "v1", Q: 1, F: true, I: 1}})
	}
	t += 400
	// the racing turn
	var turn []Step
	for i := 0; i < np; i++ {
		payload := fmt.Sprintf("v%d", i+2)
		if r.Bool(0.25) {
			payload = "" // a clear
		}
		cl := 0
		if i == 1 {
			cl = 2
		}
		turn = append(turn, Step{K: "pub", C: cl, T: topic, S: payload, Q: 1, F: true, I: int64(10 + i)})
	}
	fs := []string{r.Pick([]string{topic, "#", "a/#", "+/#"})}
	qs := []int{r.Intn(3)}
	for r.Bool(0.4) && len(fs) < 3 {
		fs, qs = append(fs, r.Pick([]string{"z/#", "a/+", "+", "a/b/#"})), append(qs, r.Intn(3))
	}
	if r.Bool(0.5) { // the matching filter is not always the first
		fs[0], fs[len(fs)-1] = fs[len(fs)-1], fs[0]
		qs[0], qs[len(qs)-1] = qs[len(qs)-1], qs[0]
	}
	sub := Step{K: "sub", C: 1, L: fs, QL: qs, I: 1}
	pos := r.Intn(len(turn) + 1)
	turn = append(turn[:pos], append([]Step{sub}, turn[pos:]...)...)
	for i := range turn {
		turn[i].W = i+1 < len(turn)
		ts = append(ts, tstep{t, turn[i]})
	}
	t += 2500
	ts = append(ts, tstep{t, Step{K: "sleep", I: 500}})
	c.Steps = mergeTimelines(ts)
	return c
}

func judgeRetainedRace(w *world) {
	endMs := w.nowMs()
	// replicas agree on the retained messages once the broadcasts are in, without anti-entropy
	if len(w.nodes) > 1 && len(w.settles) > 0 {
		if pre := w.settles[0].Pre; pre != nil {
			w.o.probe("retained_compared_before_anti_entropy")
			ret := func(l []string) []string {
				var out []string
				for _, x := range l {
					if strings.HasPrefix(x, "R|") {
						out = append(out, x)
					}
				}
				return out
			}
			a, b := ret(pre[0]), ret(pre[1])
			if strings.Join(a, "\n") != strings.Join(b, "\n") {
				w.o.violate("C07", "retained-diverged", len(w.c.Steps), endMs, nil,
					"every broadcast has been delivered (no loss, nothing under way) and no anti-entropy exchange has run yet: node 0 holds the retained messages %v, node 1 holds %v", a, b)
				return
			}
		}
	}
	sub := w.clients[1]
	if sub == nil || !w.clientAliveThrough(sub) {
		return
	}
	var topic string
	var filters []string
	subStep := -1
	for si, s := range w.c.Steps {
		if s.K == "pub" && s.F {
			topic = s.T
		}
		if s.K == "sub" && s.C == 1 {
			filters, subStep = s.L, si
		}
	}
	if subStep < 0 || topic == "" {
		return
	}
	st := w.txStamp(subStep, 1, tSUBSCRIBE)
	if st < 0 {
		return
	}
	if ok, _ := w.ackSeen(1, sub.epoch, tSUBACK, int(w.c.Steps[subStep].I), st); !ok {
		return
	}
	// every racing publish must have been acknowledged (processed)
	for si, s := range w.c.Steps {
		if s.K == "pub" && s.F && s.I >= 10 {
			cl := w.clients[s.C]
			ps := w.txStamp(si, s.C, tPUBLISH)
			if cl == nil || ps < 0 {
				return
			}
			if ok, _ := w.ackSeen(s.C, cl.epoch, tPUBACK, int(s.I), ps); !ok {
				w.o.probe("racing_publish_unacknowledged")
				return
			}
		}
	}
	matches := false
	for _, f := range filters {
		if refMatch(f, topic) {
			matches = true
		}
	}
	if !matches {
		return
	}
	// the broker's own final retained value for the topic
	final := ""
	msgs, err := w.nodes[0].dstate.Topics().Get([]byte("_default/" + topic))
	if err == nil {
		for _, m := range msgs {
			if m.Publish != nil && string(m.Publish.Topic) == "_default/"+topic {
				final = tagOf(m.Publish.Payload)
				if len(m.Publish.Payload) > 0 && final == "" {
					final = string(m.Publish.Payload)
				}
			}
		}
	}
	// what the subscriber received on that topic (live copies of two racing publishers may reach
	// it in either order, so the final value has to be among them rather than last)
	got := map[string]bool{}
	sawEmpty := false
	replayed := 0
	seen := 0
	var list []string
	for _, ob := range w.obs {
		if ob.Rx && ob.Client == 1 && ob.Epoch == sub.epoch && ob.P.Type == tPUBLISH && ob.P.Topic == topic && !ob.P.Dup {
			seen++
			tg := tagOf(ob.P.Payload)
			if len(ob.P.Payload) == 0 {
				sawEmpty = true
			} else {
				got[tg] = true
				if ob.P.Retain {
					replayed++
				}
			}
			list = append(list, fmt.Sprintf("%s(retain=%v)", tg, ob.P.Retain))
		}
	}
	w.o.Nontrivial = true
	w.o.cover(fmt.Sprintf("final=%v seen=%d", final != "", seen))
	attrs := map[string]string{"final_empty": fmt.Sprint(final == ""), "received": fmt.Sprint(seen)}
	switch {
	case final != "" && !got[final]:
		w.o.violate("C07", "stale-after-race", subStep, endMs, attrs,
			"a retained publish on %q raced a SUBSCRIBE (%q): the broker's retained value ended up as %q, the subscriber received %v on that topic: it was neither replayed the newest value nor sent the live copy", topic, filters, final, list)
	case final == "" && replayed > 0 && !sawEmpty:
		// (a live, unflagged copy of another publisher's message is not retained state; only a
		// replayed value that was never taken back is)
		w.o.violate("C07", "stale-after-race", subStep, endMs, attrs,
			"a retained clear on %q raced a SUBSCRIBE (%q): the topic ended up cleared, yet the subscriber was left with %v and never saw the clearing publish", topic, filters, list)
	}
}

func runC07Race(t *testing.T, c *Case) *Outcome {
	return runE1(t, c, profileHooks{judge: judgeRetainedRace})
}

func genC07(r *Rand, tier, profile string) *Case {
	c := &Case{Profile: "retained", Knobs: map[string]int64{}}
	nodes := r.PickInt([]int{1, 1, 2, 3})
	c.Knobs["nodes"] = int64(nodes)
	gossipKnobs(r, c)
	topics := append([]string(nil), c07Topics...)
	if r.Bool(0.25) {
		topics = append(topics, "a/", "a/b/", "b/") // a trailing empty level is a level
	}
	if r.Bool(0.3) {
		for i := 0; i < 3; i++ {
			topics = append(topics, genTopic(r, false))
		}
	}
	filters := []string{"#", "a/#", "a/+", "+", "+/b", "a/b/#", "+/+/c", "a", "a/b", "b", "a/b/c", "+/#", "a/+/c"}
	if len(topics) > len(c07Topics) && strings.HasSuffix(topics[len(c07Topics)], "/") {
		filters = append(filters, "a/", "+/", "a/b/", "a/+/")
	}
	var ts []tstep
	t := int64(1)
	nc := r.Range(2, 4)
	for i := 0; i < nc; i++ {
		ts = append(ts, tstep{t, Step{K: "connect", C: i, N: r.Intn(nodes), S: fmt.Sprintf("r%d", i), U: "u", T: "p", I: 3000}})
		t += 7
	}
	pid := 1
	tag := 0
	rounds := r.Range(1, 3)
	if tier == "thorough" {
		rounds = r.Range(1, 6)
	}
	for round := 0; round < rounds; round++ {
		for n := r.Range(1, 4); n > 0; n-- {
			t += int64(r.Range(2, 60))
			cl := r.Intn(nc)
			topic := r.Pick(topics)
			switch x := r.Intn(10); {
			case x < 6:
				tag++
				ts = append(ts, tstep{t, Step{K: "pub", C: cl, T: topic, S: fmt.Sprintf("r%d", tag), Q: r.Intn(2), F: true, I: int64(pid)}})
			case x < 8:
				ts = append(ts, tstep{t, Step{K: "pub", C: cl, T: topic, S: "", Q: r.Intn(2), F: true, I: int64(pid)}})
			default:
				tag++
				ts = append(ts, tstep{t, Step{K: "pub", C: cl, T: topic, S: fmt.Sprintf("p%d", tag), Q: r.Intn(2), I: int64(pid)}})
			}
			pid++
		}
		// subscriptions while gossip is still in flight (no anti-entropy in between): a node must
		// replay what the newest updates it has been given say
		for n := r.Intn(3); n > 0; n-- {
			t += int64(r.Range(1, 700))
			cl := r.Intn(nc)
			f := r.Pick(filters)
			fs, qs := []string{f}, []int{r.Intn(3)}
			for r.Bool(0.3) && len(fs) < 3 {
				fs, qs = append(fs, r.Pick(filters)), append(qs, r.Intn(3))
			}
			ts = append(ts, tstep{t, Step{K: "sub", C: cl, L: fs, QL: qs, I: int64(pid)}})
			pid++
			t += 1400
		}
		t += 30
		ts = append(ts, tstep{t, Step{K: "settle"}})
		t += settleDur + 20
		for n := r.Range(1, 2); n > 0; n-- {
			cl := r.Intn(nc)
			f := r.Pick(filters)
			if r.Bool(0.2) {
				f = genFilter(r, false)
			}
			fs, qs := []string{f}, []int{r.Intn(3)}
			for r.Bool(0.3) && len(fs) < 3 {
				fs, qs = append(fs, r.Pick(filters)), append(qs, r.Intn(3))
			}
			ts = append(ts, tstep{t, Step{K: "sub", C: cl, L: fs, QL: qs, I: int64(pid)}})
			pid++
			t += 1400
		}
	}
	c.Steps = mergeTimelines(ts)
	return c
}

// retainedKnowledge reconstructs, per node, the ordered list of retained-message updates that
// node has originated or been handed (decoded from the real gossip and push-pull bytes). What a
// node replays to a new subscriber must be the LWW fold of exactly that, whatever the delivery
// order, loss or duplication was.
type rkEvent struct {
	ord int64
	e   kEntry
}

func (w *world) retainedKnowledge() (map[int][]rkEvent, map[string]bool) {
	out := map[int][]rkEvent{}
	unaligned := map[string]bool{}
	// local updates: a node only ever emits its own; distinct (topic, stamp) in stamp order
	local := map[int]map[string][]kEntry{}
	seen := map[string]bool{}
	for _, r := range w.recv {
		if up, back := w.restartAt[r.Node]; back && r.AtMs < up {
			continue // what the node's previous process knew died with it
		}
		if r.Src != "emit" {
			for _, e := range r.Entries {
				if strings.HasPrefix(e.Key, "R|") {
					out[r.Node] = append(out[r.Node], rkEvent{r.Ord, e})
				}
			}
			continue
		}
		for _, e := range r.Entries {
			if !strings.HasPrefix(e.Key, "R|") {
				continue
			}
			id := fmt.Sprintf("%d|%s|%d", r.Node, e.Key, e.Stamp)
			if seen[id] {
				continue
			}
			seen[id] = true
			if local[r.Node] == nil {
				local[r.Node] = map[string][]kEntry{}
			}
			local[r.Node][e.Key] = append(local[r.Node][e.Key], e)
		}
	}
	// the scenario's retained publishes, per node and topic, in execution order
	ops := map[int]map[string][]int64{}
	acked := map[int]map[string]int{} // retained publishes (set or clear) the node acknowledged, per topic
	for si, s := range w.c.Steps {
		if s.K != "pub" || !s.F || w.txStamp(si, s.C, tPUBLISH) < 0 {
			continue
		}
		cl := w.clients[s.C]
		if cl == nil {
			continue
		}
		if up, back := w.restartAt[cl.node]; back && w.stepAt[si] < up {
			continue
		}
		key := "R|" + cl.mount + "/" + s.T
		if ops[cl.node] == nil {
			ops[cl.node] = map[string][]int64{}
		}
		ops[cl.node][key] = append(ops[cl.node][key], w.stepOrd[si])
		if ok, at := w.ackSeen(s.C, cl.epoch, tPUBACK, int(s.I), w.txStamp(si, s.C, tPUBLISH)); s.Q == 1 && ok && at+2000 < w.nowMs() {
			if acked[cl.node] == nil {
				acked[cl.node] = map[string]int{}
			}
			acked[cl.node][key]++
		}
	}
	for n, byKey := range local {
		for key, ups := range byKey {
			sort.Slice(ups, func(a, b int) bool { return ups[a].Stamp < ups[b].Stamp })
			os := ops[n][key]
			if len(os) != len(ups) {
				unaligned[key] = true
				continue
			}
			for i, u := range ups {
				out[n] = append(out[n], rkEvent{os[i], u})
			}
		}
	}
	for n, byKey := range ops {
		for key, os := range byKey {
			if len(local[n][key]) != len(os) {
				unaligned[key] = true
			}
		}
	}
	// every retained publish a node has acknowledged - a set or a clear, whether or not the node
	// held anything for the topic - is an update of the replicated state that the node records and
	// gossips: fewer updates than acknowledgements means one was applied nowhere
	w.retainedUnrecorded = nil
	for n, byKey := range acked {
		for key, k := range byKey {
			if len(local[n][key]) < k {
				w.retainedUnrecorded = append(w.retainedUnrecorded, fmt.Sprintf("node %d acknowledged %d retained publishes on %s and recorded %d updates", n, k, strings.TrimPrefix(key, "R|"), len(local[n][key])))
			}
		}
	}
	sort.Strings(w.retainedUnrecorded)
	return out, unaligned
}

func judgeRetained(w *world) {
	endMs := w.nowMs()
	know, unaligned := w.retainedKnowledge()
	if len(w.retainedUnrecorded) > 0 {
		w.o.violate("C07", "retained-update-not-recorded", len(w.c.Steps), endMs, nil, "%s (the last operation on a topic must decide what is replayed, on every node: an acknowledged set or clear that leaves no update behind cannot)", w.retainedUnrecorded[0])
	}
	type window struct{ from, to int64 }
	windows := map[int][]window{}
	judged, wild, unsettled := 0, 0, 0
	for si, s := range w.c.Steps {
		if s.K != "sub" {
			continue
		}
		cl := w.clients[s.C]
		st := w.txStamp(si, s.C, tSUBSCRIBE)
		if st < 0 || !w.clientAliveThrough(cl) {
			continue
		}
		ok, ackAt := w.ackSeen(s.C, cl.epoch, tSUBACK, int(s.I), st)
		if !ok {
			continue
		}
		from, to := w.stepAt[si], w.stepAt[si]+1300
		windows[s.C] = append(windows[s.C], window{from, to})
		f := strings.Join(s.L, " , ")
		// LWW fold of what this node knew when the SUBSCRIBE was processed
		best := map[string]kEntry{}
		skip := false
		for _, ev := range know[cl.node] {
			if ev.ord > w.stepOrd[si] {
				continue
			}
			if cur, has := best[ev.e.Key]; !has || cur.Stamp < ev.e.Stamp {
				best[ev.e.Key] = ev.e
			}
		}
		want := map[string]int{}
		for _, one := range s.L { // the replay is per filter of the SUBSCRIBE packet
			for key, e := range best {
				topic := strings.TrimPrefix(key, "R|"+cl.mount+"/")
				if topic == key || !refMatch(one, topic) {
					continue // another mount point, or no match
				}
				if unaligned[key] {
					skip = true
				}
				if e.Live {
					want[topic+"="+tagOf([]byte(e.Val))]++
				}
			}
			for key := range unaligned {
				topic := strings.TrimPrefix(key, "R|"+cl.mount+"/")
				if topic != key && refMatch(one, topic) {
					skip = true
				}
			}
		}
		if skip {
			w.o.probe("subscribe_not_judged_unaligned_local_updates")
			continue
		}
		got := map[string]int{}
		for _, ob := range w.obs {
			if ob.Rx && ob.Client == s.C && ob.P.Type == tPUBLISH && ob.P.Retain && ob.AtMs >= from && ob.AtMs < to {
				got[ob.P.Topic+"="+tagOf(ob.P.Payload)]++
				if ob.AtMs < ackAt {
					w.o.probe("retained_before_suback")
				}
			}
		}
		if up, back := w.restartAt[cl.node]; back && w.stepAt[si] > up && len(w.settles) > 0 && w.settles[0].AtMs < up {
			// the node's process has been started again: with nothing written since the settle that
			// preceded its death, what it replays is what every node listed at that settle - the
			// join exchange alone must have brought all of it back
			quietSince := true
			firstSettle := len(w.c.Steps)
			for sj, x := range w.c.Steps {
				if x.K == "settle" && sj < firstSettle {
					firstSettle = sj
				}
				if x.K == "pub" && x.F && sj > firstSettle && sj < si && w.txStamp(sj, x.C, tPUBLISH) >= 0 {
					quietSince = false
				}
			}
			if quietSince {
				w.o.probe("replay_after_restart_judged_against_settled_reference")
				ref := map[string]int{}
				for _, one := range s.L {
					for _, x := range w.settles[0].Listings[0] {
						fl := strings.SplitN(x, "|", 4)
						if fl[0] != "R" || len(fl) < 3 {
							continue
						}
						topic := strings.TrimPrefix(fl[1], cl.mount+"/")
						if topic != fl[1] && refMatch(one, topic) && fl[2] != "" {
							ref[topic+"="+tagOf([]byte(fl[2]))]++
						}
					}
				}
				var lost []string
				for k, n := range ref {
					if got[k] < n {
						lost = append(lost, k)
					}
				}
				sort.Strings(lost)
				if len(lost) > 0 {
					w.o.violate("C07", "retained-lost-by-restart", si, endMs, map[string]string{"wildcard": fmt.Sprint(strings.ContainsAny(f, "+#"))},
						"node %d's process was started again at %dms and rejoined; client %d subscribed to %q there at %dms, nothing had been written since the settle before the restart, at which every node listed retained %v; %v was not replayed (got %v)", cl.node, up, s.C, f, w.stepAt[si], keysOfCount(ref), lost, keysOfCount(got))
				}
			}
		}
		judged++
		if strings.ContainsAny(f, "+#") {
			wild++
		}
		settled := false
		for _, st := range w.settles {
			if st.AtMs <= w.stepAt[si] && w.stepAt[si]-st.AtMs < 600 {
				settled = true
			}
		}
		if !settled {
			unsettled++
		}
		var missing, extra []string
		for k, n := range want {
			if got[k] < n {
				missing = append(missing, k)
			}
		}
		for k, n := range got {
			if n > want[k] {
				extra = append(extra, fmt.Sprintf("%s(x%d)", k, n-want[k]))
			}
		}
		sort.Strings(missing)
		sort.Strings(extra)
		attrs := map[string]string{"wildcard": fmt.Sprint(strings.ContainsAny(f, "+#")), "right_after_settle": fmt.Sprint(settled)}
		if len(missing) > 0 {
			w.o.violate("C07", "retained-missing", si, endMs, attrs,
				"client %d subscribed to %q on node %d; the newest updates that node had been given say retained %v, but %v was not replayed (got %v)", s.C, f, cl.node, keysOfCount(want), missing, keysOfCount(got))
		}
		if len(extra) > 0 {
			w.o.violate("C07", "retained-extra", si, endMs, attrs,
				"client %d subscribed to %q on node %d; it was sent retained %v, which is not what the newest updates that node had been given say (%v)", s.C, f, cl.node, extra, keysOfCount(want))
		}
	}
	// a retain flag outside a subscribe window means a live copy was flagged
	for _, ob := range w.obs {
		if !ob.Rx || ob.P.Type != tPUBLISH || !ob.P.Retain {
			continue
		}
		in := false
		for _, wd := range windows[ob.Client] {
			if ob.AtMs >= wd.from && ob.AtMs < wd.to {
				in = true
			}
		}
		if !in {
			w.o.violate("C07", "live-copy-flagged-retained", ob.Step, endMs, nil, "client %d received %s with the retain flag set although it had not just subscribed", ob.Client, ob.P)
			break
		}
	}
	w.o.Stats["subscribes_judged"] += int64(judged)
	w.o.Stats["subscribes_judged_before_anti_entropy"] += int64(unsettled)
	w.o.Nontrivial = judged > 0 && len(w.recv) > 0
	_ = wild
}

func keysOfCount(m map[string]int) []string {
	var ks []string
	for k := range m {
		ks = append(ks, k)
	}
	sort.Strings(ks)
	return ks
}

// C07 variant "restart": a node's process dies and is started again (same node id, nothing but the
// message log survives); what it replays to new subscribers afterwards is what its peers have
// handed it since: the join snapshot, later gossip and anti-entropy.
func genC07Restart(r *Rand, tier, profile string) *Case {
	c := &Case{Profile: "retained-restart", Knobs: map[string]int64{}}
	nodes := r.PickInt([]int{2, 2, 3})
	c.Knobs["nodes"] = int64(nodes)
	gossipKnobs(r, c)
	topics := append([]string(nil), c07Topics...)
	filters := []string{"#", "a/#", "a/+", "+", "+/b", "a/b/#", "a", "a/b", "b", "+/#"}
	rn := 1 + r.Intn(nodes-1)
	var ts []tstep
	t := int64(1)
	// writers: two on nodes that stay up, one on the node that will restart
	ts = append(ts, tstep{t, Step{K: "connect", C: 0, N: 0, S: "w0", U: "u", T: "p", I: 3000}})
	ts = append(ts, tstep{t + 5, Step{K: "connect", C: 1, N: (rn + 1) % nodes, S: "w1", U: "u", T: "p", I: 3000}})
	ts = append(ts, tstep{t + 9, Step{K: "connect", C: 2, N: rn, S: "w2", U: "u", T: "p", I: 3000}})
	t += 20
	pid, tag := 1, 0
	write := func(writers []int, n int) {
		for ; n > 0; n-- {
			t += int64(r.Range(2, 60))
			cl := writers[r.Intn(len(writers))]
			topic := r.Pick(topics)
			if r.Bool(0.25) {
				ts = append(ts, tstep{t, Step{K: "pub", C: cl, T: topic, S: "", Q: r.Intn(2), F: true, I: int64(pid)}})
			} else {
				tag++
				ts = append(ts, tstep{t, Step{K: "pub", C: cl, T: topic, S: fmt.Sprintf("r%d", tag), Q: r.Intn(2), F: true, I: int64(pid)}})
			}
			pid++
		}
	}
	write([]int{0, 1, 2}, r.Range(2, 6))
	t += 30
	ts = append(ts, tstep{t, Step{K: "settle"}}) // what was written so far is known everywhere
	t += settleDur + int64(r.Range(20, 400))
	down := int64(r.Range(50, 1500))
	quiet := r.Bool(0.6)
	if !quiet {
		c.Knobs["leave_base_ms"] = int64(r.PickInt([]int{300, 500, 800}))
		c.Knobs["leave_spread_ms"] = 300
		down = c.Knobs["leave_base_ms"] + 300 + int64(r.Range(20, 900))
	}
	ts = append(ts, tstep{t, Step{K: "restartnode", N: rn, I: down, G: quiet}})
	if r.Bool(0.5) {
		// written while the node is away
		t0 := t
		write([]int{0, 1}, r.Range(1, 3))
		if t > t0+down-20 {
			t = t0 + down - 20
		}
		t = t0 + down
	} else {
		t += down
	}
	// new subscribers on the restarted node, right after its return and later
	sub := func(c int) {
		f := r.Pick(filters)
		fs, qs := []string{f}, []int{r.Intn(3)}
		for r.Bool(0.3) && len(fs) < 3 {
			fs, qs = append(fs, r.Pick(filters)), append(qs, r.Intn(3))
		}
		ts = append(ts, tstep{t, Step{K: "sub", C: c, L: fs, QL: qs, I: int64(pid)}})
		pid++
		t += 1400
	}
	t += int64(r.Range(30, 600))
	ts = append(ts, tstep{t, Step{K: "connect", C: 10, N: rn, S: "s10", U: "u", T: "p", I: 3000}})
	t += 10
	sub(10)
	write([]int{0, 1}, r.Range(0, 3))
	t += int64(r.Range(1, 700))
	sub(10)
	t += 30
	ts = append(ts, tstep{t, Step{K: "settle"}})
	t += settleDur + 20
	ts = append(ts, tstep{t, Step{K: "connect", C: 11, N: rn, S: "s11", U: "u", T: "p", I: 3000}})
	t += 10
	sub(11)
	ts = append(ts, tstep{t, Step{K: "connect", C: 12, N: 0, S: "s12", U: "u", T: "p", I: 3000}})
	t += 10
	sub(12)
	ts = append(ts, tstep{t, Step{K: "sleep", I: 1500}})
	c.Steps = mergeTimelines(ts)
	return c
}

func runC07(t *testing.T, c *Case) *Outcome {
	return runE1(t, c, profileHooks{judge: judgeRetained})
}

// ---------------------------------------------------------------------------------------
// C14 xnode: one append per hosting node known to the publisher, none elsewhere

func genC14(r *Rand, tier, profile string) *Case {
	c := &Case{Profile: "xnode", Knobs: map[string]int64{"snapview": 1}}
	nodes := r.PickInt([]int{2, 2, 3, 3, 3})
	c.Knobs["nodes"] = int64(nodes)
	if r.Bool(0.3) {
		c.Knobs["maporder"] = int64(1 + r.Intn(1000))
	}
	var ts []tstep
	t := int64(1)
	ns := r.Range(1, 4)
	filters := []string{"x/#", "x/+", "x/a", "#", "y/#", "x/a/b", "+/a"}
	for i := 1; i <= ns; i++ {
		t += 9
		ts = append(ts, tstep{t, Step{K: "connect", C: i, N: r.Intn(nodes), S: fmt.Sprintf("s%d", i), U: "u", T: "p", I: 3000}})
		var fs []string
		var qs []int
		for k := r.Range(1, 2); k > 0; k-- {
			fs = append(fs, r.Pick(filters))
			qs = append(qs, r.Intn(2))
		}
		ts = append(ts, tstep{t + 4, Step{K: "sub", C: i, L: fs, QL: qs, I: 1}})
	}
	pubNode := r.Intn(nodes)
	t += 10
	ts = append(ts, tstep{t, Step{K: "connect", C: 10, N: pubNode, S: "p0", U: "u", T: "p", I: 3000}})
	t += 40
	ts = append(ts, tstep{t, Step{K: "settle"}})
	t += settleDur + 40
	// every subset of remote nodes unreachable in turn, each with a PRNG failure mode
	var remotes []int
	for n := 0; n < nodes; n++ {
		if n != pubNode {
			remotes = append(remotes, n)
		}
	}
	tag := 0
	topics := []string{"x/a", "x/a/b", "y/q", "x/b"}
	masks := r.Perm(1 << uint(len(remotes)))
	for _, mask := range masks {
		anyBH := false
		for bi, n := range remotes {
			if mask&(1<<uint(bi)) != 0 {
				mode := r.Pick([]string{"fail", "fail", "blackhole", "partition", "disabled"})
				if mode == "partition" {
					ts = append(ts, tstep{t, Step{K: "partition", N: pubNode, I: int64(n)}})
					anyBH = true
				} else {
					ts = append(ts, tstep{t, Step{K: "rpcmode", N: pubNode, I: int64(n), S: mode}})
					anyBH = anyBH || mode == "blackhole"
				}
			}
		}
		t += 3
		for k := r.Range(1, 2); k > 0; k-- {
			tag++
			if r.Bool(0.2) {
				// the publishing node's own log refuses the write: it is one failed destination,
				// the others are still owed their copy
				ts = append(ts, tstep{t, Step{K: "appendfail", N: pubNode, I: 1}})
				t++
			}
			ts = append(ts, tstep{t, Step{K: "pub", C: 10, T: r.Pick(topics), S: fmt.Sprintf("x%d", tag), Q: 1, I: int64(tag)}})
			t += int64(r.Range(5, 40))
		}
		if anyBH {
			t += 11000
		} else {
			t += 400
		}
		// lift the faults
		for _, n := range remotes {
			ts = append(ts, tstep{t, Step{K: "rpcmode", N: pubNode, I: int64(n), S: "ok"}})
		}
		ts = append(ts, tstep{t + 1, Step{K: "heal"}})
		t += 50
	}
	ts = append(ts, tstep{t, Step{K: "sleep", I: 1500}})
	c.Steps = mergeTimelines(ts)
	return c
}

func judgeXnode(w *world) {
	endMs := w.nowMs()
	j := w.buildRouteModel()
	judged := 0
	for _, p := range j.pubs {
		if p.client != 10 {
			continue
		}
		pubNode := w.clients[10].node
		view := w.viewAt[p.step]
		if view == nil {
			continue
		}
		// D: peers of matching subscriptions in the publisher node's view at the distributing step
		D := map[int]bool{}
		full := "_default/" + p.topic
		for _, l := range view {
			f := strings.Split(l, "|")
			if f[0] == "U" && refMatch(f[1], full) {
				for _, n := range w.nodes {
					if fmt.Sprint(n.id) == f[3] {
						D[n.idx] = true
					}
				}
			}
		}
		// which destinations did the simulator make unreachable for this publish
		unreachable := map[int]string{}
		for _, rp := range w.rpcs {
			if rp.Tag == p.tag && rp.Src == pubNode && rp.Outcome != "ok" {
				if rp.Outcome == "ctx" {
					// the broker gave up on a destination the simulator had left reachable (its deadline
					// was spent before the call started): no excuse for not serving it
					w.o.probe("call_abandoned_to_reachable_destination")
					continue
				}
				unreachable[rp.Dst] = rp.Outcome
			}
		}

		// calls still in flight when the run ended did not reach their destination either
		for _, st := range w.rpcStarted {
			if st.Tag == p.tag && st.Src == pubNode {
				done := false
				for _, rp := range w.rpcs {
					if rp.Tag == p.tag && rp.Src == st.Src && rp.Dst == st.Dst {
						done = true
					}
				}
				if !done {
					unreachable[st.Dst] = "pending"
				}
			}
		}
		judged++
		perNode := map[int]int{}
		for _, a := range w.appends {
			if a.Tag == p.tag && !a.Err {
				perNode[a.Node]++
			}
			if a.Tag == p.tag && a.Err && a.Node == pubNode {
				unreachable[pubNode] = "local-append-failed"
				w.o.probe("publishes_with_failed_local_append")
			}
		}
		for _, n := range w.nodes {
			want := 0
			if D[n.idx] && unreachable[n.idx] == "" {
				want = 1
			}
			if perNode[n.idx] != want {
				kind := "append-missing"
				if perNode[n.idx] > want {
					kind = "append-extra"
				}
				attrs := map[string]string{"dest": "remote", "in_D": fmt.Sprint(D[n.idx]), "other_unreachable": fmt.Sprint(len(unreachable) > 0)}
				if n.idx == pubNode {
					attrs["dest"] = "local"
				}
				w.o.violate("C14", kind, p.step, endMs, attrs, "publish %s on %q from node %d: node %d's log received it %d times, want %d (hosting nodes known to the publisher: %v, unreachable: %v)", p.tag, p.topic, pubNode, n.idx, perNode[n.idx], want, sortedInts(D), unreachable)
			}
		}
		// acknowledgement iff no destination failed
		cl := w.clients[10]
		st := w.txStamp(p.step, 10, tPUBLISH)
		acked, _ := w.ackSeen(10, cl.epoch, tPUBACK, int(w.c.Steps[p.step].I), st)
		failedAny := false
		for n := range D {
			if unreachable[n] != "" {
				failedAny = true
			}
		}
		if acked == failedAny {
			w.o.violate("C14", "ack-mismatch", p.step, endMs, map[string]string{"acked": fmt.Sprint(acked)}, "publish %s: acknowledged=%v although destination failures=%v (%v)", p.tag, acked, failedAny, unreachable)
		}
		if failedAny {
			w.o.probe("publishes_with_unreachable_destination")
		}
		// every subscriber gets one copy per matching filter iff its node was served
		for id, fs := range j.active[p.step] {
			scl := w.clients[id]
			if id == 10 || !w.clientAliveThrough(scl) {
				continue
			}
			want := 0
			for f := range fs {
				if refMatch(f, p.topic) {
					want++
				}
			}
			if unreachable[scl.node] != "" || !D[scl.node] {
				want = 0
			}
			got := 0
			for _, ex := range scl.exch {
				if ex.tag == p.tag {
					got++
				}
			}
			if got != want {
				w.o.violate("C14", "copies-mismatch", p.step, endMs, map[string]string{"more": fmt.Sprint(got > want)}, "publish %s on %q: subscriber %d on node %d (filters %v) received %d copies, want %d (unreachable %v)", p.tag, p.topic, id, scl.node, sortedFilters(fs), got, want, unreachable)
			}
		}
	}
	w.o.Stats["publishes_judged"] += int64(judged)
	w.o.Nontrivial = judged > 0
}

func runC14(t *testing.T, c *Case) *Outcome {
	return runE1(t, c, profileHooks{judge: judgeXnode})
}

func init() {
	register(&Check{ID: "C07", Level: "exploration", Build: "maporder", Gen: genC07, Run: runC07, QuickS: 30, ThoroughS: 480,
		Rule: "a case = 1-3 nodes, 2-4 clients, rounds of retained publishes (non-empty / empty payload) and plain publishes over topics with shared prefixes, a settle, then subscriptions with exact and wildcard filters on any node, each followed by a 1.3 s observation window; the replayed set is compared with a reference map; non-trivial when >=1 subscribe judged with a non-empty reference; distinct by hash of the scenario",
		Real: e1Real, Stub: e1Stub,
		Assume: []string{"a SUBSCRIBE with several filters replays once per (filter, matching topic)", "retained writes to one topic are ordered by simulated time (the CRDT clock is one strictly increasing stamp); concurrent cross-node writes are not generated"}})
	register(&Check{ID: "C07", Variant: "restart", Level: "exploration", Build: "maporder", Gen: genC07Restart, Run: runC07, QuickS: 12, ThoroughS: 200,
		Rule: "variant with a process restart: 2-3 nodes, retained sets and clears from writers on every node, a settle, then one node's process dies and is started again from its data directory (same node id, replicated state gone) 50-1500 ms later, unnoticed or right after a fast failure detection, retained writes continuing elsewhere meanwhile; new subscribers on the restarted node right after its return (join snapshot only), while gossip is in flight, and after a settle; what they are replayed is the LWW fold of what the node has been handed since its return; non-trivial when >=1 subscription judged",
		Real: e1Real, Stub: e1Stub,
		Assume: []string{"retained state is not durable: what the restarted node's previous process knew is not expected to survive except through its peers"}})
	register(&Check{ID: "C07", Variant: "race", Level: "exploration", Build: "lockstep", Gen: genC07Race, Run: runC07Race, QuickS: 20, ThoroughS: 300,
		Rule: "concurrent variant: one node, an optional earlier retained value, then one or two retained publishes (or clears) and a SUBSCRIBE with 1-3 filters handed to the broker in the same driver turn, executed on the statement-instrumented build with seeded preemption (the running goroutine yields at PRNG-chosen statements, one P) and the race detector on; the subscriber's last message on the topic must be the broker's own final retained value (replay or live copy), or nothing / the clearing publish if the topic ended up cleared",
		Real: e1Real, Stub: append([]string{"goroutine scheduling inside the broker: Go runtime with one P plus PRNG-chosen runtime.Gosched() at instrumented statements"}, e1Stub...),
		Assume: []string{"racing publishes are QoS 1 and judged only if acknowledged", "single node: cross-node races between a subscription's gossip and a publish are C01's live variant"}})
	register(&Check{ID: "C14", Level: "fault_enumeration", Build: "maporder", Gen: genC14, Run: runC14, QuickS: 30, ThoroughS: 480,
		Rule: "a case = 2-3 nodes, a PRNG placement of 1-4 subscribers and one publisher, and for that placement every subset of remote nodes made unreachable in turn (fast failure, black hole or partition per node), 1-2 QoS 1 publishes per subset; appends per node, acknowledgement and copies per subscriber are judged against the publisher node's view; non-trivial when >=1 publish judged; distinct by hash of the scenario",
		Real: e1Real, Stub: e1Stub,
		Assume: []string{"the publisher node's view is its subscription listing at the step that injects the publish", "placements and failure modes are sampled; the subsets of unreachable remote nodes are enumerated completely per placement"}})
}

// ---------------------------------------------------------------------------------------
// C01, variant "live": publishes while subscription gossip is still in flight.
// Without a settle in between, which remote subscriptions count is what the publishing node has
// been told so far: node A forwards a publish to node N iff the LWW fold of the updates A has
// been handed contains a live matching subscription hosted on N; N then serves its own local
// sessions, whose filters it knows first-hand.

func genC01Live(r *Rand, tier, profile string) *Case {
	c := &Case{Profile: "route-live", Knobs: map[string]int64{}}
	nodes := r.PickInt([]int{2, 2, 3})
	c.Knobs["nodes"] = int64(nodes)
	gossipKnobs(r, c)
	nc := r.Range(2, 5)
	var ts []tstep
	t := int64(1)
	for i := 0; i < nc; i++ {
		ts = append(ts, tstep{t, Step{K: "connect", C: i, N: r.Intn(nodes), S: fmt.Sprintf("cl%d", i), U: "u", T: "p", I: 300}})
		t += int64(r.Range(1, 30))
	}
	pid, tag := 1, 0
	n := r.Range(4, 16)
	if tier == "thorough" {
		n = r.Range(4, 40)
	}
	filters := []string{"a/#", "a/+", "a/b", "#", "+/b", "b", "a", "+"}
	topics := []string{"a/b", "a", "b", "a/c", "a/b/c"}
	subbed := map[int][]string{}
	for i := 0; i < n; i++ {
		// gaps between 1 ms and 1.5 s: shorter, around and longer than gossip latency
		t += int64(r.PickInt([]int{1, 5, 30, 150, 250, 450, 900, 1500}))
		cl := r.Intn(nc)
		switch x := r.Intn(10); {
		case x < 4:
			f := r.Pick(filters)
			subbed[cl] = append(subbed[cl], f)
			ts = append(ts, tstep{t, Step{K: "sub", C: cl, L: []string{f}, QL: []int{r.Intn(2)}, I: int64(pid)}})
		case x < 5 && len(subbed[cl]) > 0:
			ts = append(ts, tstep{t, Step{K: "unsub", C: cl, L: []string{subbed[cl][r.Intn(len(subbed[cl]))]}, I: int64(pid)}})
		default:
			tag++
			ts = append(ts, tstep{t, Step{K: "pub", C: cl, T: r.Pick(topics), S: fmt.Sprintf("m%d", tag), Q: r.Intn(2), I: int64(pid)}})
		}
		pid++
		if r.Bool(0.1) {
			a := r.Intn(nodes)
			b := (a + 1 + r.Intn(nodes-1)) % nodes
			ts = append(ts, tstep{t + 1, Step{K: "pushpull", N: a, I: int64(b)}})
		}
	}
	ts = append(ts, tstep{t + 500, Step{K: "sleep", I: 1500}})
	c.Steps = mergeTimelines(ts)
	return c
}

func judgeRouteLive(w *world) {
	j := w.buildRouteModel()
	endMs := w.nowMs()
	ids := make([]int, 0, len(w.clients))
	for id := range w.clients {
		ids = append(ids, id)
	}
	sort.Ints(ids)
	// times at which each client changed its own subscriptions
	changes := map[int][]int64{}
	for si, s := range w.c.Steps {
		if s.K == "sub" || s.K == "unsub" {
			changes[s.C] = append(changes[s.C], w.stepAt[si])
		}
	}
	judged, remoteKnown, remoteUnknown := 0, 0, 0
	for _, p := range j.pubs {
		pcl := w.clients[p.client]
		if pcl == nil {
			continue
		}
		A := pcl.node
		// what A had been told when it distributed the publish
		best := map[string]kEntry{}
		for _, r := range w.recv {
			if r.Node != A || r.Src == "emit" || r.Ord > w.stepOrd[p.step] {
				continue
			}
			for _, e := range r.Entries {
				if strings.HasPrefix(e.Key, "U|") {
					if cur, has := best[e.Key]; !has || cur.Stamp < e.Stamp {
						best[e.Key] = e
					}
				}
			}
		}
		knowsHost := map[int]bool{}
		for key, e := range best {
			if !e.Live {
				continue
			}
			f := strings.SplitN(key, "|", 3)
			pat := strings.TrimPrefix(f[1], p.mount+"/")
			if pat == f[1] || !refMatch(pat, p.topic) {
				continue
			}
			for _, n := range w.nodes {
				if strings.HasPrefix(e.Val, fmt.Sprint(n.id)+"|") {
					knowsHost[n.idx] = true
				}
			}
		}
		for _, id := range ids {
			cl := w.clients[id]
			if !w.clientAliveThrough(cl) || cl.mount != p.mount {
				continue
			}
			stable := true
			for _, at := range changes[id] {
				if at > p.atMs-100 && at < p.atMs+700 {
					stable = false
				}
			}
			fs := j.active[p.step][id]
			if !stable || fs == nil {
				continue
			}
			matching := 0
			for f := range fs {
				if refMatch(f, p.topic) {
					matching++
				}
			}
			want := matching
			if cl.node != A {
				if knowsHost[cl.node] {
					remoteKnown++
				} else {
					want = 0
					if matching > 0 {
						remoteUnknown++
					}
				}
			}
			got := 0
			for _, ex := range cl.exch {
				if ex.tag == p.tag {
					got++
				}
			}
			judged++
			if got == want {
				continue
			}
			kind := "missing-delivery"
			if got > want {
				kind = "extra-delivery"
			}
			w.o.violate("C01", kind, p.step, endMs, map[string]string{"class": "live-" + classifyMatch(sortedFilters(fs), p.topic), "remote": fmt.Sprint(cl.node != A)},
				"publish %s on %q from node %d while subscription gossip was in flight: client %d on node %d (filters %q) received %d copies; node %d had been told of a matching subscription hosted on node %d: %v, so the reference says %d",
				p.tag, p.topic, A, id, cl.node, sortedFilters(fs), got, A, cl.node, knowsHost[cl.node], want)
		}
	}
	w.o.Stats["deliveries_judged"] += int64(judged)
	w.o.Stats["remote_deliveries_publisher_knew"] += int64(remoteKnown)
	w.o.Stats["remote_matches_publisher_had_not_been_told"] += int64(remoteUnknown)
	w.o.Nontrivial = judged > 0
}

func runC01Live(t *testing.T, c *Case) *Outcome {
	return runE1(t, c, profileHooks{judge: judgeRouteLive})
}

func init() {
	register(&Check{ID: "C01", Variant: "live", Level: "exploration", Build: "maporder", Gen: genC01Live, Run: runC01Live, QuickS: 15, ThoroughS: 300,
		Rule: "variant 'live': 2-3 nodes, subscribe/unsubscribe/publish interleaved at gaps from 1 ms to 1.5 s with gossip loss/duplication/delay and occasional push-pull, no settle; a publish must reach a remote matching session iff the LWW fold of the subscription updates the publishing node had been handed by then contains a live matching subscription hosted on that session's node; sessions whose own filters changed within [-0.1 s, +0.7 s] of the publish are not judged",
		Real: e1Real, Stub: e1Stub,
		Assume: []string{"what a node 'has learned' is reconstructed from the gossip and push-pull payloads the simulator actually delivered to it (decoded with the protobuf codec, not read from the node's state)"}})
}
