package h

import (
	"bufio"
	"bytes"
	"context"
	"encoding/json"
	"fmt"
	"os"
	"os/exec"
	"path/filepath"
	"runtime"
	"runtime/pprof"
	"sort"
	"strconv"
	"strings"
	"sync"
	"sync/atomic"
	"syscall"
	"testing"
	"time"
)

func envInt(name string, def int64) int64 {
	if v := os.Getenv(name); v != "" {
		if n, err := strconv.ParseInt(v, 10, 64); err == nil {
			return n
		}
	}
	return def
}

func verifSeed() uint64 { return uint64(envInt("VERIF_SEED", 1)) }

// TestEntry is the single entry point of the harness binary; VERIF_MODE selects the role.
func TestEntry(t *testing.T) {
	switch os.Getenv("VERIF_MODE") {
	case "driver":
		os.Exit(driverMain(t))
	case "worker":
		workerMain(t)
	case "one":
		oneMain(t)
	case "casehist": // development aid: print the canonical history of run VERIF_INDEX of a check
		ck := checks[os.Getenv("VERIF_CHECK")]
		// VERIF_WARMUP=n: execute the n preceding indexes first, in this process (divergences that
		// only show after other runs have left their mark on the runtime)
		for i := int(envInt("VERIF_INDEX", 0)) - int(envInt("VERIF_WARMUP", 0)); i < int(envInt("VERIF_INDEX", 0)); i++ {
			if i >= 0 {
				ck.Run(t, caseFor(ck, verifSeed(), os.Getenv("VERIF_TIER"), i))
			}
		}
		c := caseFor(ck, verifSeed(), os.Getenv("VERIF_TIER"), int(envInt("VERIF_INDEX", 0)))
		o := ck.Run(t, c)
		for _, h := range o.History {
			fmt.Println(h)
		}
		fmt.Println("DIGEST", o.Digest)
	case "replay":
		os.Exit(replayMain(t))
	case "selftest":
		os.Exit(selftestMain())
	default:
		t.Skip("VERIF_MODE not set; use /verif/run")
	}
}

// ---------------------------------------------------------------------------------------
// worker

type workerSummary struct {
	Check      string           `json:"check"`
	Runs       int              `json:"runs"`
	Nontrivial []string         `json:"nontrivial_fps"`
	NontrivN   int              `json:"nontrivial_n"`
	Stats      map[string]int64 `json:"stats"`
	SimMs      int64            `json:"sim_ms"`
	Orders     []string         `json:"orders"`
	States     []string         `json:"states"`
	Samples    []*Case          `json:"samples"`
	Known      map[string]int   `json:"known"`
	Cover      []string         `json:"cover"`
	WallMs     int64            `json:"wall_ms"`
}

type violationMsg struct {
	Replay string     `json:"replay"`
	V      *Violation `json:"v"`
}

const maxFP = 40000

func caseFor(ck *Check, seed uint64, tier string, i int) *Case {
	cs := mix(seed, ck.ID, ck.Build, ck.Variant, i)
	r := NewRand(cs)
	profile := ""
	if len(ck.Profiles) > 0 {
		profile = ck.Profiles[i%len(ck.Profiles)]
	}
	c := ck.Gen(r, tier, profile)
	c.Prop = ck.ID
	c.Build = ck.Build
	c.Variant = ck.Variant
	if c.Profile == "" {
		c.Profile = profile
	}
	c.Seed = cs
	return c
}

func workerMain(t *testing.T) {
	ck := checks[os.Getenv("VERIF_CHECK")]
	if ck == nil {
		fmt.Fprintf(os.Stderr, "unknown check %q\n", os.Getenv("VERIF_CHECK"))
		os.Exit(2)
	}
	k := int(envInt("VERIF_WORKER", 0))
	nw := int(envInt("VERIF_NWORKERS", 1))
	budget := time.Duration(envInt("VERIF_BUDGET_MS", 10000)) * time.Millisecond
	maxRuns := int(envInt("VERIF_MAXRUNS", 1<<30))
	tier := os.Getenv("VERIF_TIER")
	seed := verifSeed()
	digests := os.Getenv("VERIF_DIGESTS") != ""
	known := loadKnown()
	curPath := filepath.Join(os.Getenv("VERIF_DATA"), fmt.Sprintf("cur-%s-%d.json", strings.ReplaceAll(ck.key(), "/", "_"), k))

	sum := &workerSummary{Check: ck.key(), Stats: map[string]int64{}, Known: map[string]int{}}
	fps := map[string]bool{}
	orders := map[string]bool{}
	states := map[string]bool{}
	cover := map[string]bool{}
	out := bufio.NewWriter(os.Stdout)
	defer out.Flush()
	start := time.Now()
	unknownSigs := map[string]bool{}
	// watchdog: a case executed in this process that never finishes (a dead-locked or spinning
	// broker keeps a synctest bubble from ever becoming idle) is handed to the driver, which
	// re-executes it in a child of its own and classifies the hang
	var lastProgress int64 = time.Now().UnixNano()
	progress := func(c *Case) {
		if b, err := json.Marshal(c); err == nil {
			os.WriteFile(curPath, b, 0644)
		}
		atomic.StoreInt64(&lastProgress, time.Now().UnixNano())
	}
	if !ck.Isolated {
		limit := time.Duration(envInt("VERIF_CASE_TIMEOUT_S", 150)) * time.Second
		go func() {
			for {
				time.Sleep(2 * time.Second)
				if time.Duration(time.Now().UnixNano()-atomic.LoadInt64(&lastProgress)) > limit {
					os.Stdout.WriteString("\nHUNG\n")
					pprof.Lookup("goroutine").WriteTo(os.Stderr, 2)
					os.Exit(3)
				}
			}
		}()
	}
	run := func(c *Case) *Outcome {
		progress(c)
		if ck.Isolated {
			return runIsolated(os.Args[0], c)
		}
		return ck.Run(t, c)
	}
	for i := k; i < maxRuns; i += nw {
		if time.Since(start) > budget {
			break
		}
		c := caseFor(ck, seed, tier, i)
		o := run(c)
		sum.Runs++
		sum.SimMs += o.SimMs
		for s, n := range o.Stats {
			sum.Stats[s] += n
		}
		if o.Nontrivial && !fps[o.Fingerprint] {
			if len(fps) < maxFP {
				fps[o.Fingerprint] = true
			}
		}
		if o.OrderHash != "" && len(orders) < maxFP {
			orders[o.OrderHash] = true
		}
		if o.StateHash != "" && len(states) < maxFP {
			states[o.StateHash] = true
		}
		for it := range o.Cover {
			if len(cover) < 200000 {
				cover[it] = true
			}
		}
		if len(sum.Samples) < 2 && o.Nontrivial {
			sum.Samples = append(sum.Samples, c)
		}
		if digests {
			fmt.Fprintf(out, "D %d %s\n", i, o.Digest)
		}
		seen := map[string]bool{}
		for vi := range o.Violations {
			v := &o.Violations[vi]
			sig := v.Sig()
			if seen[sig] {
				continue
			}
			seen[sig] = true
			if kf := matchKnown(known, v); kf != nil {
				sum.Known[kf.ID]++
				continue
			}
			if unknownSigs[sig] {
				continue
			}
			unknownSigs[sig] = true
			orig := len(c.Steps)
			min := c
			shrunk := false
			if os.Getenv("VERIF_NOSHRINK") == "" {
				if v.Kind == "livelock" || v.Kind == "stalled-on-lock" {
					m, _ := shrinkCase(c, sig, func(x *Case) *Outcome { progress(x); return runIsolatedT(os.Args[0], x, 12*time.Second) }, 8)
					min, shrunk = m, true
				} else {
					m, _ := shrinkCase(c, sig, run, 400)
					min, shrunk = m, true
				}
			}
			// re-execute the minimised case to get the violation record that goes with it
			mo := run(min)
			_, mv := firstSig(mo, sig)
			note := ""
			if mv == nil {
				mv = v
				min = c
				shrunk = false
				note = "minimised case did not reproduce on re-execution; original case kept"
			}
			rf := &ReplayFile{Property: ck.ID, Build: ck.Build, Signature: sig, Violation: mv, Case: min,
				FoundSeed: seed, RunIndex: i, Shrunk: shrunk, OrigSteps: orig, Note: note}
			p := writeReplay(rf)
			b, _ := json.Marshal(violationMsg{Replay: p, V: mv})
			fmt.Fprintf(out, "V %s\n", b)
			out.Flush()
		}
		if len(unknownSigs) >= 3 {
			break
		}
	}
	os.Remove(curPath)
	for f := range fps {
		sum.Nontrivial = append(sum.Nontrivial, f)
	}
	sort.Strings(sum.Nontrivial)
	sum.NontrivN = len(sum.Nontrivial)
	for f := range orders {
		sum.Orders = append(sum.Orders, f)
	}
	for f := range states {
		sum.States = append(sum.States, f)
	}
	for f := range cover {
		sum.Cover = append(sum.Cover, f)
	}
	sum.WallMs = time.Since(start).Milliseconds()
	b, _ := json.Marshal(sum)
	fmt.Fprintf(out, "S %s\n", b)
}

// oneMain executes one case file in this process and prints its violations (used for cases
// that may crash the process, and by replay).
func oneMain(t *testing.T) {
	b, err := os.ReadFile(os.Getenv("VERIF_CASE"))
	if err != nil {
		fmt.Fprintln(os.Stderr, err)
		os.Exit(2)
	}
	var c Case
	if err := json.Unmarshal(b, &c); err != nil {
		fmt.Fprintln(os.Stderr, err)
		os.Exit(2)
	}
	ck := checks[caseKey(&c)]
	if ck == nil {
		fmt.Fprintf(os.Stderr, "unknown check %s\n", caseKey(&c))
		os.Exit(2)
	}
	if d := envInt("VERIF_CHILD_SELFDUMP_S", 0); d > 0 {
		// a case that does not finish: dump every goroutine from inside (runtime.Stack stops the
		// world, so the goroutine that is busy gets a stack too, which a SIGQUIT dump cannot give
		// for a goroutine running on another thread) and leave
		go func() {
			time.Sleep(time.Duration(d) * time.Second)
			buf := make([]byte, 64<<20)
			n := runtime.Stack(buf, true)
			os.Stderr.WriteString("\nWATCHDOG-DUMP\n")
			os.Stderr.Write(buf[:n])
			os.Exit(4)
		}()
	}
	o := ck.Run(t, &c)
	for i := range o.Violations {
		vb, _ := json.Marshal(&o.Violations[i])
		fmt.Printf("V %s\n", vb)
	}
	fmt.Printf("DIGEST %s\n", o.Digest)
	meta, _ := json.Marshal(map[string]interface{}{"stats": o.Stats, "sim_ms": o.SimMs, "fp": o.Fingerprint, "nontrivial": o.Nontrivial, "order": o.OrderHash, "state": o.StateHash, "cover": o.Cover})
	fmt.Printf("META %s\n", meta)
	if os.Getenv("VERIF_HISTORY") != "" {
		for _, h := range o.History {
			fmt.Printf("H %s\n", h)
		}
	}
}

// ---------------------------------------------------------------------------------------
// replay

func replayMain(t *testing.T) int {
	b, err := os.ReadFile(os.Getenv("VERIF_REPLAY"))
	if err != nil {
		fmt.Fprintln(os.Stderr, err)
		return 2
	}
	var rf ReplayFile
	if err := json.Unmarshal(b, &rf); err != nil {
		fmt.Fprintln(os.Stderr, err)
		return 2
	}
	ck := checks[caseKey(rf.Case)]
	if ck == nil {
		fmt.Fprintf(os.Stderr, "unknown check %s\n", caseKey(rf.Case))
		return 2
	}
	var o *Outcome
	attempts := 1
	if ck.Statistical {
		attempts = 60 // the runtime chooses the interleaving: the same case is executed until it shows again
	}
	for a := 1; a <= attempts; a++ {
		if ck.Isolated {
			o = runIsolated(os.Args[0], rf.Case)
		} else {
			o = ck.Run(t, rf.Case)
		}
		if _, v := firstSig(o, rf.Signature); v != nil {
			if attempts > 1 {
				fmt.Printf("statistical variant: reproduced on attempt %d of at most %d\n", a, attempts)
			}
			break
		}
	}
	if os.Getenv("VERIF_HISTORY") != "" {
		for _, h := range o.History {
			fmt.Printf("H %s\n", h)
		}
	}
	sig, v := firstSig(o, rf.Signature)
	if v != nil {
		fmt.Printf("reproduced: %s\n  %s\n", sig, v.Msg)
		fmt.Printf("VIOLATION property=%s replay=%s\n", rf.Property, os.Getenv("VERIF_REPLAY"))
		return 1
	}
	fmt.Printf("not reproduced: expected signature %q; this run produced %d violation(s)\n", rf.Signature, len(o.Violations))
	for i := range o.Violations {
		fmt.Printf("  other: %s\n", o.Violations[i].Sig())
	}
	return 0
}

// runIsolated executes a case in a child process; a crash of the child with a Go panic is
// turned into a violation of kind "panic".
// runIsolatedT: limit > 0 shortens the watchdog, e.g. while a hang is being minimised (every
// attempt that still hangs costs the whole limit).
func runIsolated(bin string, c *Case) *Outcome { return runIsolatedT(bin, c, 0) }

// isolatedTrouble: the child neither finished nor failed in a way that can be attributed to the
// system under test. Fatal for a worker or a replay; the driver, which only wanted a second
// opinion on a hung worker's case, carries on (runIsolatedSoft).
type isolatedTrouble struct{ msg string }

func runIsolatedSoft(bin string, c *Case) (o *Outcome, ok bool) {
	defer func() {
		if r := recover(); r != nil {
			if it, is := r.(isolatedTrouble); is {
				fmt.Fprintln(os.Stderr, it.msg)
				o, ok = nil, false
				return
			}
			panic(r)
		}
	}()
	return runIsolatedInner(bin, c, 0), true
}

func runIsolatedT(bin string, c *Case, override time.Duration) *Outcome {
	defer func() {
		if r := recover(); r != nil {
			if it, is := r.(isolatedTrouble); is {
				fmt.Fprintln(os.Stderr, it.msg)
				os.Exit(2)
			}
			panic(r)
		}
	}()
	return runIsolatedInner(bin, c, override)
}

func runIsolatedInner(bin string, c *Case, override time.Duration) *Outcome {
	o := newOutcome()
	dir := os.Getenv("VERIF_DATA")
	if dir == "" {
		dir = os.TempDir()
	}
	f, err := os.CreateTemp(dir, "case-*.json")
	if err != nil {
		fmt.Fprintln(os.Stderr, err)
		os.Exit(2)
	}
	b, _ := json.Marshal(c)
	f.Write(b)
	f.Close()
	defer os.Remove(f.Name())
	cmd := exec.Command(bin, "-test.run", "^TestEntry$", "-test.timeout", "0")
	cmd.SysProcAttr = &syscall.SysProcAttr{Pdeathsig: syscall.SIGKILL} // never outlive the process that asked
	// GOTRACEBACK=crash: on SIGQUIT every thread dumps its own stack, so the goroutine that is
	// running at that instant (the interesting one in a live-lock) is not "stack unavailable"
	limitS := envInt("VERIF_CHILD_TIMEOUT_S", 90)
	if override > 0 {
		limitS = int64(override / time.Second)
	}
	selfdump := fmt.Sprintf("VERIF_CHILD_SELFDUMP_S=%d", limitS-5)
	cmd.Env = append(os.Environ(), "VERIF_MODE=one", "VERIF_CASE="+f.Name(), "GOMAXPROCS=1", selfdump)
	if c.Build == "lockstep" {
		cmd.Env = append(os.Environ(), "VERIF_MODE=one", "VERIF_CASE="+f.Name(), "GOMAXPROCS=8", selfdump)
	}
	var stdout, stderr bytes.Buffer
	cmd.Stdout = &stdout
	cmd.Stderr = &stderr
	// watchdog: a child that does not finish is asked for a goroutine dump and killed
	hung := false
	if err = cmd.Start(); err == nil {
		done := make(chan error, 1)
		go func() { done <- cmd.Wait() }()
		limit := time.Duration(envInt("VERIF_CHILD_TIMEOUT_S", 90)) * time.Second
		if override > 0 {
			limit = override
		}
		select {
		case err = <-done:
		case <-time.After(limit):
			hung = true
			cmd.Process.Signal(syscall.SIGQUIT)
			select {
			case err = <-done:
			case <-time.After(10 * time.Second):
				cmd.Process.Kill()
				err = <-done
			}
		}
	}
	if !hung && strings.Contains(stderr.String(), "\nWATCHDOG-DUMP\n") {
		hung = true // the child's own watchdog fired first
	}
	if hung {
		all := stderr.String()
		if i := strings.Index(all, "\nWATCHDOG-DUMP\n"); i >= 0 {
			all = all[i:]
		}
		os.WriteFile(filepath.Join(dir, fmt.Sprintf("hang-%d.txt", os.Getpid())), []byte(all), 0644)
		if frame := runningFrame(all); frame != "" {
			o.violate(c.Prop, "livelock", -1, 0, map[string]string{"frame": frame}, "the simulated broker never became idle: a goroutine kept running in %s (child killed after %v)", frame, time.Duration(envInt("VERIF_CHILD_TIMEOUT_S", 90))*time.Second)
			return o
		}
		if frame := lockBlockedFrame(all); frame != "" {
			// nothing runs, yet the bubble never became idle: a broker goroutine waits for a mutex
			// (not a durable block for synctest) that nobody is going to release
			o.violate(c.Prop, "stalled-on-lock", -1, 0, map[string]string{"frame": frame}, "the simulated broker stopped making progress: no goroutine is running and one waits for a lock in %s (child killed after %v)", frame, time.Duration(envInt("VERIF_CHILD_TIMEOUT_S", 90))*time.Second)
			return o
		}
		panic(isolatedTrouble{fmt.Sprintf("isolated run hung without a running wasp frame; dump in %s\n%s", dir, tail(all, 3000))})
	}
	sc := bufio.NewScanner(&stdout)
	sc.Buffer(make([]byte, 1<<20), 1<<26)
	for sc.Scan() {
		line := sc.Text()
		if strings.HasPrefix(line, "V ") {
			var v Violation
			if json.Unmarshal([]byte(line[2:]), &v) == nil {
				o.Violations = append(o.Violations, v)
			}
		} else if strings.HasPrefix(line, "DIGEST ") {
			o.Digest = line[7:]
		} else if strings.HasPrefix(line, "H ") {
			o.History = append(o.History, line[2:])
		} else if strings.HasPrefix(line, "META ") {
			var m struct {
				Stats      map[string]int64 `json:"stats"`
				SimMs      int64            `json:"sim_ms"`
				FP         string           `json:"fp"`
				Nontrivial bool             `json:"nontrivial"`
				Order      string           `json:"order"`
				State      string           `json:"state"`
				Cover      map[string]bool  `json:"cover"`
			}
			if json.Unmarshal([]byte(line[5:]), &m) == nil {
				for k, v := range m.Stats {
					o.Stats[k] += v
				}
				o.SimMs, o.Fingerprint, o.Nontrivial, o.OrderHash, o.StateHash, o.Cover = m.SimMs, m.FP, m.Nontrivial, m.Order, m.State, m.Cover
			}
		}
	}
	if err != nil && o.Digest != "" && c.Build == "lockstep" {
		// a binary built with -race exits non-zero once the detector has reported anything (here:
		// possibly inside a dependency); the DIGEST line says the case ran to completion
		err = nil
	}
	if err != nil {
		all := stdout.String() + stderr.String()
		if frame := panicFrame(all); frame != "" {
			o.violate(c.Prop, "panic", -1, 0, map[string]string{"frame": frame}, "process died: %s", firstPanicLine(all))
		} else if rrs := raceReportsFromText(all); c.Build == "lockstep" && len(rrs) > 0 && (rrs[0].a != "?" || rrs[0].b != "?") {
			// the child did not get as far as its digest, but the race detector had already spoken
			for _, rr := range rrs {
				if rr.a == "?" && rr.b == "?" {
					continue
				}
				o.violate(c.Prop, "data-race", -1, 0, map[string]string{"a": rr.a, "b": rr.b}, "the race detector reported unsynchronised conflicting accesses: %s <-> %s (the case did not run to completion)", rr.a, rr.b)
			}
		} else {
			panic(isolatedTrouble{fmt.Sprintf("isolated run failed without a recognisable panic: %v\n%s", err, tail(all, 4000))})
		}
	}
	return o
}

func tail(s string, n int) string {
	if len(s) > n {
		return s[len(s)-n:]
	}
	return s
}

func firstPanicLine(s string) string {
	for _, l := range strings.Split(s, "\n") {
		if strings.HasPrefix(l, "panic:") || strings.HasPrefix(l, "fatal error:") {
			return l
		}
	}
	return "?"
}

// panicFrame returns the first stack frame inside wasp or mqtt-protocol of a Go panic dump.
func panicFrame(s string) string {
	if !strings.Contains(s, "panic:") && !strings.Contains(s, "fatal error:") {
		return ""
	}
	lines := strings.Split(s, "\n")
	started := false
	for _, l := range lines {
		if strings.HasPrefix(l, "panic:") || strings.HasPrefix(l, "fatal error:") {
			started = true
			continue
		}
		if !started {
			continue
		}
		l = strings.TrimSpace(l)
		if (strings.HasPrefix(l, "github.com/vx-labs/wasp/") || strings.HasPrefix(l, "github.com/vx-labs/mqtt-protocol/")) && !strings.Contains(l, "/verifrt.") {
			if i := strings.LastIndex(l, "("); i > 0 {
				l = l[:i]
			}
			return l
		}
	}
	return ""
}

// ---------------------------------------------------------------------------------------
// driver

type evidence struct {
	PropertyID  string                 `json:"property_id"`
	Tier        string                 `json:"tier"`
	Seed        int64                  `json:"seed"`
	Level       string                 `json:"level"`
	Coverage    map[string]interface{} `json:"coverage"`
	Assumptions []string               `json:"assumptions"`
	WallS       float64                `json:"wall_s"`
	Violations  int                    `json:"violations"`
}

func parseBins() map[string]string {
	m := map[string]string{}
	for _, f := range strings.Fields(os.Getenv("VERIF_BINS")) {
		if i := strings.Index(f, "="); i > 0 {
			m[f[:i]] = f[i+1:]
		}
	}
	return m
}

func driverMain(t *testing.T) int {
	prop := os.Getenv("VERIF_PROP")
	tier := os.Getenv("VERIF_TIER")
	if tier != "thorough" {
		tier = "quick"
	}
	seed := verifSeed()
	fmt.Printf("VERIF_SEED=%d property=%s tier=%s\n", seed, prop, tier)
	bins := parseBins()
	variants := checkVariants[prop]
	if len(variants) == 0 {
		fmt.Fprintf(os.Stderr, "no check registered for %s\n", prop)
		return 2
	}
	known := loadKnown()
	start := time.Now()
	total := &workerSummary{Stats: map[string]int64{}, Known: map[string]int{}}
	fps := map[string]bool{}
	orders := map[string]bool{}
	states := map[string]bool{}
	cover := map[string]bool{}
	var viols []violationMsg
	var rules, real, stub, assume []string
	level := "exploration"
	trouble := false
	instr := map[string]json.RawMessage{}
	perVariant := map[string]interface{}{}
	for _, ck := range variants {
		bin := bins[ck.Build]
		if only := os.Getenv("VERIF_VARIANT"); only != "" && only != ck.Variant && !(only == "-" && ck.Variant == "") {
			continue // development aid: one variant of the property's check
		}
		if bin == "" {
			continue
		}
		if b, err := os.ReadFile(filepath.Join(os.Getenv("VERIF_INSTR_DIR"), "instr-"+ck.Build+".json")); err == nil {
			instr[ck.Build] = b
		}
		budgetS := int64(ck.QuickS)
		if tier == "thorough" {
			budgetS = int64(ck.ThoroughS)
		}
		budgetS = envInt("VERIF_BUDGET_S", budgetS)
		nw := int(envInt("VERIF_WORKERS", int64(runtime.NumCPU())))
		if nw < 1 {
			nw = 1
		}
		rules = append(rules, ck.Rule)
		real = append(real, ck.Real...)
		stub = append(stub, ck.Stub...)
		assume = append(assume, ck.Assume...)
		if ck.Level == "fault_enumeration" {
			level = ck.Level
		}
		var mu sync.Mutex
		var wg sync.WaitGroup
		vsum := &workerSummary{Stats: map[string]int64{}}
		for k := 0; k < nw; k++ {
			wg.Add(1)
			go func(k int) {
				defer wg.Done()
				wctx, wcancel := context.WithTimeout(context.Background(), time.Duration(budgetS*2+420)*time.Second)
				defer wcancel()
				cmd := exec.CommandContext(wctx, bin, "-test.run", "^TestEntry$", "-test.timeout", "0")
				cmd.SysProcAttr = &syscall.SysProcAttr{Pdeathsig: syscall.SIGKILL} // workers die with the driver
				gmp := "1"
				gorace := "halt_on_error=0"
				if ck.Build == "lockstep" {
					// every task parks in a raw read(2) and keeps its P: tasks + scheduler + slack
					gmp = "8"
					gorace = fmt.Sprintf("halt_on_error=0 log_path=%s", filepath.Join(os.Getenv("VERIF_DATA"), fmt.Sprintf("race-%s-%d", ck.ID, k)))
				}
				cmd.Env = append(os.Environ(), "VERIF_MODE=worker", "VERIF_CHECK="+ck.key(),
					fmt.Sprintf("VERIF_WORKER=%d", k), fmt.Sprintf("VERIF_NWORKERS=%d", nw),
					fmt.Sprintf("VERIF_BUDGET_MS=%d", budgetS*1000), "VERIF_TIER="+tier, "GOMAXPROCS="+gmp,
					fmt.Sprintf("VERIF_SEED=%d", seed), "GORACE="+gorace)
				var stdout, stderr bytes.Buffer
				cmd.Stdout = &stdout
				cmd.Stderr = &stderr
				err := cmd.Run()
				mu.Lock()
				defer mu.Unlock()
				gotSummary := false
				hungMark := strings.Contains(stdout.String(), "\nHUNG\n")
				sc := bufio.NewScanner(&stdout)
				sc.Buffer(make([]byte, 1<<20), 1<<28)
				for sc.Scan() {
					line := sc.Text()
					switch {
					case strings.HasPrefix(line, "V "):
						var vm violationMsg
						if json.Unmarshal([]byte(line[2:]), &vm) == nil {
							viols = append(viols, vm)
						}
					case strings.HasPrefix(line, "S "):
						var s workerSummary
						if json.Unmarshal([]byte(line[2:]), &s) == nil {
							gotSummary = true
							vsum.Runs += s.Runs
							total.Runs += s.Runs
							total.SimMs += s.SimMs
							for n, v := range s.Stats {
								total.Stats[n] += v
							}
							for _, f := range s.Nontrivial {
								fps[ck.Build+f] = true
							}
							for _, f := range s.Orders {
								orders[f] = true
							}
							for _, f := range s.States {
								states[f] = true
							}
							for _, f := range s.Cover {
								cover[f] = true
							}
							for id, n := range s.Known {
								total.Known[id] += n
							}
							if len(total.Samples) < 3 {
								total.Samples = append(total.Samples, s.Samples...)
							}
						}
					}
				}
				// a -race test binary exits non-zero once the detector has reported anything; the
				// summary line is what says the worker ran to completion
				if !gotSummary {
					all := stdout.String() + "\n" + stderr.String()
					frame := panicFrame(all)
					curPath := filepath.Join(os.Getenv("VERIF_DATA"), fmt.Sprintf("cur-%s-%d.json", strings.ReplaceAll(ck.key(), "/", "_"), k))
					cb, cerr := os.ReadFile(curPath)
					if frame != "" && cerr == nil {
						var c Case
						json.Unmarshal(cb, &c)
						v := &Violation{Prop: ck.ID, Kind: "panic", Attrs: map[string]string{"frame": frame}, Msg: "worker process died: " + firstPanicLine(all), Step: -1}
						if kf := matchKnown(known, v); kf != nil {
							total.Known[kf.ID]++
							return
						}
						rf := &ReplayFile{Property: ck.ID, Build: ck.Build, Signature: v.Sig(), Violation: v, Case: &c, FoundSeed: seed, RunIndex: -k - 1,
							OrigSteps: len(c.Steps), Note: "found as a crash of a worker process; not minimised\n" + tail(all, 3000)}
						p := writeReplay(rf)
						viols = append(viols, violationMsg{Replay: p, V: v})
						return
					}
					if cerr == nil && (hungMark || wctx.Err() != nil) {
						// the worker got stuck inside a case: re-execute that case in a child and let the
						// child's watchdog say what kind of hang it is
						var c Case
						json.Unmarshal(cb, &c)
						mu.Unlock()
						o, iok := runIsolatedSoft(bin, &c)
						mu.Lock()
						found := false
						if !iok {
							o = newOutcome()
						}
						for vi := range o.Violations {
							v := o.Violations[vi]
							found = true
							if kf := matchKnown(known, &v); kf != nil {
								total.Known[kf.ID]++
								continue
							}
							rf := &ReplayFile{Property: ck.ID, Build: ck.Build, Signature: v.Sig(), Violation: &v, Case: &c, FoundSeed: seed, RunIndex: -k - 1,
								OrigSteps: len(c.Steps), Note: "found as a hang of a worker process, confirmed by re-executing the case in a child; not minimised"}
							viols = append(viols, violationMsg{Replay: writeReplay(rf), V: &v})
						}
						if found {
							return
						}
					}
					trouble = true
					fmt.Fprintf(os.Stderr, "worker %d of %s failed (%v) without an attributable panic:\n%s\n", k, ck.key(), err, tail(all, 6000))
				}
			}(k)
		}
		wg.Wait()
		perVariant[strings.TrimPrefix(ck.key(), ck.ID+"/")] = map[string]interface{}{"runs": vsum.Runs, "budget_s": budgetS, "workers": nw}
	}
	// pinned replays of open known findings: each KNOWN-FINDING line is backed by a current reproduction
	for i := range known {
		k := &known[i]
		if k.Property != prop || k.Status != "open" || k.Replay == "" {
			continue
		}
		b, err := os.ReadFile(filepath.Join(verifDir(), k.Replay))
		if err != nil {
			fmt.Fprintf(os.Stderr, "note: pinned replay %s of known finding %s is unreadable: %v\n", k.Replay, k.ID, err)
			continue
		}
		var rf ReplayFile
		if json.Unmarshal(b, &rf) != nil || rf.Case == nil {
			continue
		}
		ck := checks[caseKey(rf.Case)]
		if ck == nil || bins[ck.Build] == "" {
			continue
		}
		o := runIsolated(bins[ck.Build], rf.Case)
		hit := false
		for vi := range o.Violations {
			if kf := matchKnown(known, &o.Violations[vi]); kf != nil && kf.ID == k.ID {
				hit = true
			} else if kf == nil {
				v := o.Violations[vi]
				rf2 := &ReplayFile{Property: prop, Build: ck.Build, Signature: v.Sig(), Violation: &v, Case: rf.Case, FoundSeed: seed, RunIndex: -1000 - i, Note: "produced by the pinned replay of known finding " + k.ID}
				viols = append(viols, violationMsg{Replay: writeReplay(rf2), V: &v})
			}
		}
		if hit {
			total.Known[k.ID]++
		} else {
			fmt.Fprintf(os.Stderr, "note: pinned replay of known finding %s no longer reproduces it\n", k.ID)
		}
	}
	wall := time.Since(start).Seconds()

	// report
	exit := 0
	kfByID := map[string]*KnownFinding{}
	for i := range known {
		kfByID[known[i].ID] = &known[i]
	}
	ids := make([]string, 0, len(total.Known))
	for id := range total.Known {
		ids = append(ids, id)
	}
	sort.Strings(ids)
	for _, id := range ids {
		fmt.Printf("KNOWN-FINDING: property=%s %s (id=%s, reproduced in %d runs of this batch)\n", prop, kfByID[id].What, id, total.Known[id])
	}
	for i := range known {
		k := &known[i]
		if k.Property == prop && k.Status == "open" && total.Known[k.ID] == 0 {
			fmt.Fprintf(os.Stderr, "note: known finding %s was not reproduced by this batch\n", k.ID)
		}
	}
	seenSig := map[string]bool{}
	for _, vm := range viols {
		sig := vm.V.Sig()
		if seenSig[sig] {
			continue
		}
		seenSig[sig] = true
		fmt.Printf("violation: %s\n  %s\n", sig, vm.V.Msg)
		fmt.Printf("VIOLATION property=%s replay=%s\n", prop, vm.Replay)
		exit = 1
	}

	// evidence
	samples := []interface{}{}
	for _, s := range total.Samples {
		samples = append(samples, s)
	}
	faults := map[string]int64{}
	probes := map[string]int64{}
	for n, v := range total.Stats {
		if strings.HasPrefix(n, "fault.") {
			faults[strings.TrimPrefix(n, "fault.")] = v
		} else {
			probes[n] = v
		}
	}
	cov := map[string]interface{}{
		"evaluations":             total.Runs,
		"distinct_nontrivial":     len(fps),
		"rule":                    strings.Join(rules, " || "),
		"samples":                 samples,
		"exhaustive":              false,
		"runs_per_hour":           int64(float64(total.Runs) / wall * 3600),
		"sim_seconds_total":       float64(total.SimMs) / 1000,
		"faults_fired":            faults,
		"probes":                  probes,
		"distinct_event_orders":   len(orders),
		"distinct_state_digests":  len(states),
		"distinct_coverage_items": len(cover),
		"real_components":         uniq(real),
		"stub_components":         uniq(stub),
		"variants":                perVariant,
		"instrumentation":         instr,
		"known_findings_hit":      total.Known,
	}
	ev := evidence{PropertyID: prop, Tier: tier, Seed: int64(seed), Level: level, Coverage: cov,
		Assumptions: uniq(assume), WallS: wall, Violations: len(seenSig)}
	if !trouble && total.Runs > 0 {
		b, _ := json.MarshalIndent(ev, "", " ")
		os.MkdirAll(filepath.Join(verifDir(), "evidence"), 0755)
		os.WriteFile(filepath.Join(verifDir(), "evidence", prop+".json"), b, 0644)
	}
	fmt.Printf("summary: property=%s runs=%d distinct_nontrivial=%d sim_s=%.0f wall_s=%.1f violations=%d known=%d\n",
		prop, total.Runs, len(fps), float64(total.SimMs)/1000, wall, len(seenSig), len(total.Known))
	var zero []string
	for n, v := range probes {
		if v == 0 {
			zero = append(zero, n)
		}
	}
	sort.Strings(zero)
	if len(zero) > 0 {
		fmt.Fprintf(os.Stderr, "warning: probes at zero: %s\n", strings.Join(zero, ", "))
	}
	if exit == 1 {
		return 1 // a violation with its replay file has been reported: that is the result
	}
	if trouble {
		return 2
	}
	if total.Runs == 0 {
		fmt.Fprintln(os.Stderr, "no runs executed")
		return 2
	}
	return exit
}

func uniq(xs []string) []string {
	m := map[string]bool{}
	out := []string{}
	for _, x := range xs {
		if x != "" && !m[x] {
			m[x] = true
			out = append(out, x)
		}
	}
	sort.Strings(out)
	return out
}

// ---------------------------------------------------------------------------------------
// determinism self-test: same seed => same digest, across processes and GOMAXPROCS.

func selftestMain() int {
	bin := os.Getenv("VERIF_BIN")
	bins := parseBins()
	ids := strings.Fields(strings.ReplaceAll(os.Getenv("VERIF_IDS"), ",", " "))
	if len(ids) == 0 {
		for id := range checkVariants {
			ids = append(ids, id)
		}
		sort.Strings(ids)
	}
	nruns := int(envInt("VERIF_SELFTEST_RUNS", 200))
	reps := []string{"1", "4", "16", "1", "16"}
	bad := 0
	for _, id := range ids {
		for _, ck := range checkVariants[id] {
			bin := bin
			if ck.Build != "maporder" {
				if bins[ck.Build] == "" {
					continue
				}
				bin = bins[ck.Build]
			}
			results := make([]map[int]string, len(reps))
			var wg sync.WaitGroup
			for ri, gmp := range reps {
				wg.Add(1)
				go func(ri int, gmp string) {
					defer wg.Done()
					results[ri] = map[int]string{}
					// split the run range over 4 processes per repetition
					var iw sync.WaitGroup
					var mu sync.Mutex
					for k := 0; k < 4; k++ {
						iw.Add(1)
						go func(k int) {
							defer iw.Done()
							cmd := exec.Command(bin, "-test.run", "^TestEntry$", "-test.timeout", "0")
							cmd.SysProcAttr = &syscall.SysProcAttr{Pdeathsig: syscall.SIGKILL}
							if ck.Build == "lockstep" && gmp == "1" {
								gmp = "2"
							}
							cmd.Env = append(os.Environ(), "GORACE=halt_on_error=0 log_path="+filepath.Join(os.Getenv("VERIF_DATA"), "race-selftest"), "VERIF_MODE=worker", "VERIF_CHECK="+ck.key(),
								fmt.Sprintf("VERIF_WORKER=%d", k), "VERIF_NWORKERS=4", "VERIF_BUDGET_MS=600000",
								fmt.Sprintf("VERIF_MAXRUNS=%d", nruns), "VERIF_TIER=quick", "GOMAXPROCS="+gmp, "VERIF_DIGESTS=1", "VERIF_NOSHRINK=1",
								fmt.Sprintf("VERIF_DATA=%s", os.Getenv("VERIF_DATA")))
							outb, _ := cmd.Output()
							mu.Lock()
							defer mu.Unlock()
							for _, line := range strings.Split(string(outb), "\n") {
								if strings.HasPrefix(line, "D ") {
									f := strings.Fields(line)
									if len(f) == 3 {
										i, _ := strconv.Atoi(f[1])
										results[ri][i] = f[2]
									}
								}
							}
						}(k)
					}
					iw.Wait()
				}(ri, gmp)
			}
			wg.Wait()
			div := 0
			for i := 0; i < nruns; i++ {
				for ri := 1; ri < len(reps); ri++ {
					if results[ri][i] != results[0][i] {
						div++
						if div <= 5 {
							fmt.Printf("DIVERGENCE %s run=%d: GOMAXPROCS=%s -> %s, GOMAXPROCS=%s -> %s\n", id, i, reps[0], results[0][i], reps[ri], results[ri][i])
						}
						break
					}
				}
			}
			fmt.Printf("selftest %s: %d runs x %d repetitions (GOMAXPROCS %s): %d divergent, %d digests collected\n",
				ck.key(), nruns, len(reps), strings.Join(reps, ","), div, len(results[0]))
			if ck.Statistical {
				fmt.Printf("  (%s is a statistical variant: the Go runtime, not the simulator, picks the interleaving; divergence is expected and does not count)\n", ck.key())
				continue
			}
			if div > 0 || len(results[0]) < nruns {
				bad++
			}
		}
	}
	if bad > 0 {
		return 2
	}
	return 0
}

// lockBlockedFrame finds a goroutine waiting for a sync.Mutex / sync.RWMutex whose innermost
// frame outside runtime and sync belongs to wasp, and returns that frame.
func lockBlockedFrame(dump string) string {
	for _, b := range strings.Split(dump, "\n\n") {
		lines := strings.Split(b, "\n")
		if len(lines) == 0 || !strings.HasPrefix(lines[0], "goroutine ") {
			continue
		}
		if !strings.Contains(lines[0], "[sync.Mutex.Lock") && !strings.Contains(lines[0], "[sync.RWMutex.") {
			continue
		}
		for _, l := range lines[1:] {
			if strings.HasPrefix(l, "\t") {
				continue // file:line
			}
			l = strings.TrimSpace(l)
			if strings.HasPrefix(l, "runtime.") || strings.HasPrefix(l, "sync.") || strings.HasPrefix(l, "internal/sync.") || strings.HasPrefix(l, "internal/") {
				continue
			}
			if strings.HasPrefix(l, "github.com/vx-labs/wasp/") && !strings.Contains(l, "/verifrt.") {
				if i := strings.LastIndex(l, "("); i > 0 {
					l = l[:i]
				}
				return l
			}
			break // the lock belongs to somebody else's code
		}
	}
	return ""
}

// runningFrame finds, in a SIGQUIT goroutine dump, a goroutine in state "running" or "runnable"
// whose stack is inside wasp or mqtt-protocol, and returns its innermost such frame.
func runningFrame(dump string) string {
	blocks := strings.Split(dump, "\n\n")
	for _, b := range blocks {
		lines := strings.Split(b, "\n")
		if len(lines) == 0 || !strings.HasPrefix(lines[0], "goroutine ") {
			continue
		}
		// "GC assist": a goroutine that allocates so fast that it is made to help the collector
		// is a running goroutine as far as the broker is concerned
		if !strings.Contains(lines[0], "[running") && !strings.Contains(lines[0], "[runnable") && !strings.Contains(lines[0], "[GC assist") {
			continue
		}
		for _, l := range lines[1:] {
			l = strings.TrimSpace(l)
			if (strings.HasPrefix(l, "github.com/vx-labs/wasp/") || strings.HasPrefix(l, "github.com/vx-labs/mqtt-protocol/")) && !strings.Contains(l, "/verifrt.") {
				if i := strings.LastIndex(l, "("); i > 0 {
					l = l[:i]
				}
				return l
			}
		}
	}
	return ""
}
