package h

// E3 "lockstep": 2-4 task goroutines operate on one shared wasp object; exactly one task runs at
// a time and the PRNG picks the next one at every instrumented yield point (one before every
// statement of the instrumented packages, plus scheduler-aware try-lock loops). Hand-over uses bare
// read/write system calls on pipes (syscall.Syscall, not syscall.Read/Write, which carry race
// annotations) and //go:norace bookkeeping, so the scheduler itself creates no
// happens-before edge: under -race the detector sees exactly the synchronisation the code under
// test performs, and reports unsynchronised conflicting accesses even though they ran one after
// the other. Histories are checked with porcupine against small sequential models.
//
// Case: Knobs obj (which object), tasks; Steps are operations with C = task index:
//   see the per-object apply functions below for the step kinds.
// Case.Sched (optional) forces the task choice at every scheduling point (replay).

import (
	"bytes"
	"fmt"
	"os"
	"sort"
	"strings"
	"sync"
	"syscall"
	"testing"
	"time"
	"unsafe"

	"github.com/anishathalye/porcupine"
	"github.com/golang/protobuf/proto"
	"github.com/hashicorp/memberlist"
	"github.com/vx-labs/mqtt-protocol/packet"
	"github.com/vx-labs/wasp/v4/subscriptions"
	"github.com/vx-labs/wasp/v4/topics"
	"github.com/vx-labs/wasp/v4/verifrt"
	"github.com/vx-labs/wasp/v4/wasp"
	"github.com/vx-labs/wasp/v4/wasp/ack"
	"github.com/vx-labs/wasp/v4/wasp/api"
	"github.com/vx-labs/wasp/v4/wasp/audit"
	"github.com/vx-labs/wasp/v4/wasp/distributed"
	"github.com/vx-labs/wasp/v4/wasp/expiration"
	"github.com/vx-labs/wasp/v4/wasp/sessions"
)

// ---------------------------------------------------------------------------------------
// scheduler

type lsTask struct {
	rfd, wfd int
	done     bool
	blocked  bool
	site     int
	stale    bool // blocked and nobody else has run since
}

type lsSched struct {
	cur    int
	rfd    int // scheduler wake-up pipe
	wfd    int
	tasks  []*lsTask
	step   int64
	choice []int // recorded choices
	forced []int
	rng    *Rand
	sites  map[int]bool
	dead   bool
}

var ls *lsSched

//go:norace
func rawWrite(fd int) {
	var b [1]byte
	for {
		_, _, e := syscall.Syscall(syscall.SYS_WRITE, uintptr(fd), uintptr(unsafe.Pointer(&b[0])), 1)
		if e == 0 {
			return
		}
		if e != syscall.EINTR && e != syscall.EAGAIN {
			panic("harness: raw write: " + e.Error())
		}
	}
}

//go:norace
func rawRead(fd int) {
	var b [1]byte
	for {
		n, _, e := syscall.Syscall(syscall.SYS_READ, uintptr(fd), uintptr(unsafe.Pointer(&b[0])), 1)
		if e == 0 && n == 1 {
			return
		}
		if e != 0 && e != syscall.EINTR && e != syscall.EAGAIN {
			panic("harness: raw read: " + e.Error())
		}
	}
}

//go:norace
func lsYield(site int, blocked bool) {
	s := ls
	if s == nil || s.cur < 0 {
		return
	}
	t := s.tasks[s.cur]
	t.site = site
	t.blocked = blocked
	rawWrite(s.wfd)
	rawRead(t.rfd)
}

//go:norace
func lsStep() int64 {
	if ls == nil {
		return 0
	}
	return ls.step
}

//go:norace
func lsFinish(i int) {
	s := ls
	s.tasks[i].done = true
	rawWrite(s.wfd)
}

func mkPipe() (int, int) {
	var p [2]int
	if err := syscall.Pipe(p[:]); err != nil {
		panic("harness: pipe: " + err.Error())
	}
	return p[0], p[1]
}

// runTasks runs the task bodies under the lockstep scheduler. It returns the recorded schedule,
// and deadlock=true if every unfinished task was blocked on a lock with nobody able to run.
//
//go:norace
func runTasks(seed uint64, forced []int, bodies []func(i int)) (choices []int, deadlock bool, sites int) {
	s := &lsSched{cur: -1, rng: NewRand(seed), forced: forced, sites: map[int]bool{}}
	s.rfd, s.wfd = mkPipe()
	for range bodies {
		r, w := mkPipe()
		s.tasks = append(s.tasks, &lsTask{rfd: r, wfd: w})
	}
	ls = s
	verifrt.YieldHook = lsYield
	var wg sync.WaitGroup
	for i := range bodies {
		wg.Add(1)
		go func(i int) {
			defer wg.Done()
			rawRead(s.tasks[i].rfd) // wait for the first turn
			bodies[i](i)
			lsFinish(i)
		}(i)
	}
	for {
		var eligible []int
		unfinished := 0
		for i, t := range s.tasks {
			if t.done {
				continue
			}
			unfinished++
			if !(t.blocked && t.stale) {
				eligible = append(eligible, i)
			}
		}
		if unfinished == 0 {
			break
		}
		if len(eligible) == 0 {
			deadlock = true
			break
		}
		var pick int
		if len(s.forced) > 0 {
			want := s.forced[0]
			s.forced = s.forced[1:]
			pick = eligible[0]
			for _, e := range eligible {
				if e == want {
					pick = e
				}
			}
		} else {
			pick = eligible[s.rng.Intn(len(eligible))]
		}
		s.choice = append(s.choice, pick)
		s.step++
		// everybody else who was blocked gets another chance after this one has run
		for i, t := range s.tasks {
			if i != pick {
				t.stale = false
			}
		}
		t := s.tasks[pick]
		s.cur = pick
		rawWrite(t.wfd)
		rawRead(s.rfd)
		s.cur = -1
		if t.blocked {
			t.stale = true
		}
		if t.site >= 0 {
			s.sites[t.site] = true
		}
		if s.step > 200000 {
			panic("harness: lockstep step cap exceeded")
		}
	}
	if deadlock {
		// tasks are parked in raw reads inside the code under test; they cannot be resumed
		// meaningfully. Leave them (the worker process reports and exits).
		s.dead = true
		ls = nil
		verifrt.YieldHook = nil
		return s.choice, true, len(s.sites)
	}
	wg.Wait() // a real join: the driver may now read what the tasks wrote
	ls = nil
	verifrt.YieldHook = nil
	syscall.Close(s.rfd)
	syscall.Close(s.wfd)
	for _, t := range s.tasks {
		syscall.Close(t.rfd)
		syscall.Close(t.wfd)
	}
	return s.choice, false, len(s.sites)
}

// ---------------------------------------------------------------------------------------
// race reports: the race detector writes to GORACE log_path.<pid>; new content = this run's

var raceLogOff int64

func raceLogPath() string {
	for _, kv := range strings.Fields(os.Getenv("GORACE")) {
		if strings.HasPrefix(kv, "log_path=") {
			return strings.TrimPrefix(kv, "log_path=") + fmt.Sprintf(".%d", os.Getpid())
		}
	}
	return ""
}

type raceReport struct{ a, b string }

func newRaceReports() []raceReport {
	p := raceLogPath()
	if p == "" {
		return nil
	}
	b, err := os.ReadFile(p)
	if err != nil || int64(len(b)) <= raceLogOff {
		return nil
	}
	txt := string(b[raceLogOff:])
	raceLogOff = int64(len(b))
	return raceReportsFromText(txt)
}

// raceReportsFromText parses race detector output (log file or a child's stderr).
func raceReportsFromText(txt string) []raceReport {
	var out []raceReport
	for _, blk := range strings.Split(txt, "WARNING: DATA RACE")[1:] {
		// the first frame of each of the two access stacks that is inside wasp
		var frames []string
		for _, sec := range strings.Split(blk, "\n\n") {
			if !(strings.Contains(sec, "Write at") || strings.Contains(sec, "Read at") || strings.Contains(sec, "Previous write at") || strings.Contains(sec, "Previous read at")) {
				continue
			}
			f := "?"
			for _, l := range strings.Split(sec, "\n") {
				l = strings.TrimSpace(l)
				if strings.HasPrefix(l, "github.com/vx-labs/wasp/") && !strings.Contains(l, "/verifrt.") {
					if i := strings.LastIndex(l, "("); i > 0 {
						l = l[:i]
					}
					f = strings.TrimPrefix(l, "github.com/vx-labs/wasp/v4/")
					break
				}
			}
			frames = append(frames, f)
		}
		for len(frames) < 2 {
			frames = append(frames, "?")
		}
		if strings.Contains(blk, ".Verif") {
			// an access made by one of the harness's own hook functions in /repo (e.g. restoring the
			// clock after the tasks have ended): the scheduler deliberately gives the race detector
			// no edges of its own, so the harness's set-up and tear-down look unordered to it
			continue
		}
		sort.Strings(frames[:2])
		out = append(out, raceReport{frames[0], frames[1]})
	}
	return out
}

// newRaceReportsInnermost: like newRaceReports, but a report counts as wasp's only if the
// innermost frame of both access stacks is wasp code (whole-broker runs also execute
// dependencies, whose own races are not this repository's).
func newRaceReportsInnermost() []raceReport {
	p := raceLogPath()
	if p == "" {
		return nil
	}
	b, err := os.ReadFile(p)
	if err != nil || int64(len(b)) <= raceLogOff {
		return nil
	}
	txt := string(b[raceLogOff:])
	raceLogOff = int64(len(b))
	var out []raceReport
	for _, blk := range strings.Split(txt, "WARNING: DATA RACE")[1:] {
		var frames []string
		for _, sec := range strings.Split(blk, "\n\n") {
			if !(strings.Contains(sec, "Write at") || strings.Contains(sec, "Read at") || strings.Contains(sec, "Previous write at") || strings.Contains(sec, "Previous read at")) {
				continue
			}
			f := "?"
			for _, l := range strings.Split(sec, "\n")[1:] {
				if strings.HasPrefix(l, "      ") || strings.TrimSpace(l) == "" {
					continue // file:line
				}
				l = strings.TrimSpace(l)
				if strings.HasPrefix(l, "runtime.") || strings.HasPrefix(l, "sync.") || strings.HasPrefix(l, "sync/atomic.") || strings.HasPrefix(l, "internal/") || strings.Contains(l, "/verifrt.") {
					continue
				}
				if strings.HasPrefix(l, "github.com/vx-labs/wasp/") {
					if i := strings.LastIndex(l, "("); i > 0 {
						l = l[:i]
					}
					f = strings.TrimPrefix(l, "github.com/vx-labs/wasp/v4/")
				}
				break
			}
			frames = append(frames, f)
		}
		for len(frames) < 2 {
			frames = append(frames, "?")
		}
		sort.Strings(frames[:2])
		out = append(out, raceReport{frames[0], frames[1]})
	}
	return out
}

// ---------------------------------------------------------------------------------------
// objects under test: each defines how a step is executed and its sequential model

type lsOp struct {
	task     int
	in       string
	out      string
	call     int64
	ret      int64
	panicked string
}

type lsObject interface {
	// exec runs one operation on the real object and returns its canonical output
	exec(s *Step) string
	// model: sequential specification over a canonical string state
	init() string
	step(state string, in string, out string) (bool, string)
	// final invariants after all tasks are done
	final(ops []lsOp) string
}

func opInput(s *Step) string {
	return fmt.Sprintf("%s|%s|%s|%d|%d|%d", s.K, s.S, s.T, s.I, s.J, s.Q)
}

// ---- registry ----
type lsRegistry struct {
	st   wasp.LocalState
	sess map[string]*sessions.Session
}

func newLsRegistry() *lsRegistry {
	r := &lsRegistry{st: wasp.NewState(1), sess: map[string]*sessions.Session{}}
	for _, id := range []string{"a", "b", "c", "d", "e", "f"} {
		s, _ := sessions.NewSession("sess-"+id, "_default", "tcp", nil, &packet.Connect{ClientId: []byte(id)})
		r.sess[id] = s
	}
	return r
}
func sid(s *sessions.Session) string {
	if s == nil {
		return "-"
	}
	return s.ID()
}
func (r *lsRegistry) exec(s *Step) string {
	switch s.K {
	case "create":
		return sid(r.st.Create(s.S, r.sess[s.T]))
	case "get":
		return sid(r.st.Get(s.S))
	case "delete":
		return sid(r.st.Delete(s.S))
	case "list":
		var ids []string
		for _, x := range r.st.ListSessions() {
			ids = append(ids, x.ID())
		}
		sort.Strings(ids)
		return strings.Join(ids, ",")
	}
	return ""
}
func (r *lsRegistry) init() string { return "" }
func parseKV(state string) map[string]string {
	m := map[string]string{}
	if state == "" {
		return m
	}
	for _, kv := range strings.Split(state, ";") {
		if i := strings.Index(kv, "="); i >= 0 {
			m[kv[:i]] = kv[i+1:]
		}
	}
	return m
}
func fmtKV(m map[string]string) string {
	ks := make([]string, 0, len(m))
	for k := range m {
		ks = append(ks, k)
	}
	sort.Strings(ks)
	var b strings.Builder
	for i, k := range ks {
		if i > 0 {
			b.WriteByte(';')
		}
		b.WriteString(k + "=" + m[k])
	}
	return b.String()
}
func (r *lsRegistry) step(state, in, out string) (bool, string) {
	f := strings.Split(in, "|")
	m := parseKV(state)
	get := func(k string) string {
		if v, ok := m[k]; ok {
			return v
		}
		return "-"
	}
	switch f[0] {
	case "create":
		old := get(f[1])
		m[f[1]] = "sess-" + f[2]
		return out == old, fmtKV(m)
	case "get":
		return out == get(f[1]), state
	case "delete":
		old := get(f[1])
		delete(m, f[1])
		return out == old, fmtKV(m)
	case "list":
		var ids []string
		for _, v := range m {
			ids = append(ids, v)
		}
		sort.Strings(ids)
		return out == strings.Join(ids, ","), state
	}
	return true, state
}
func (r *lsRegistry) final(ops []lsOp) string { return "" }

// ---- identifier pool ----
type lsPool struct {
	p        wasp.VerifMIDPool
	min, max int32
}

func (p *lsPool) exec(s *Step) string {
	switch s.K {
	case "get":
		return fmt.Sprint(p.p.Get())
	case "put":
		p.p.Put(int32(s.I))
	case "putlast":
		// handled by the task wrapper (needs the task's own last id); never reaches here
	}
	return ""
}
func (p *lsPool) init() string { return "" }
func (p *lsPool) step(state, in, out string) (bool, string) {
	f := strings.Split(in, "|")
	m := parseKV(state)
	switch f[0] {
	case "get":
		var v int32
		fmt.Sscan(out, &v)
		if v < p.min || v > p.max {
			return len(m) == int(p.max-p.min)+1, state
		}
		if _, busy := m[out]; busy {
			return false, state
		}
		m[out] = "1"
		return true, fmtKV(m)
	case "put":
		delete(m, f[3])
		return true, fmtKV(m)
	}
	return true, state
}
func (p *lsPool) final(ops []lsOp) string { return "" }

// ---- topic-keyed stores ----
type lsKV struct {
	st    kvStore
	store string
}

func (k *lsKV) exec(s *Step) string {
	switch s.K {
	case "ins":
		k.st.put(s.T, []byte(s.S))
	case "rem":
		k.st.remove(s.T)
	case "ups":
		k.st.upsert(s.T, s.S)
	case "get":
		v, _ := k.st.get(s.T)
		return strings.Join(sortedVals(v), ",")
	case "all": // iteration only: count and iteration are two calls, each atomic on its own
		v, _, _ := k.st.all()
		return strings.Join(sortedVals(v), ",")
	case "count":
		if r, ok := k.st.(*retainedKV); ok {
			return fmt.Sprint(r.s.Count())
		}
		v, _, _ := k.st.all()
		return fmt.Sprint(len(v))
	}
	return ""
}
func (k *lsKV) init() string { return "" }
func (k *lsKV) step(state, in, out string) (bool, string) {
	f := strings.Split(in, "|")
	m := parseKV(state)
	switch f[0] {
	case "ins":
		m[f[2]] = f[1]
		return true, fmtKV(m)
	case "rem":
		delete(m, f[2])
		return true, fmtKV(m)
	case "ups":
		m[f[2]] = m[f[2]] + f[1]
		return true, fmtKV(m)
	case "get":
		return out == m[f[2]], state
	case "all", "count":
		var vs []string
		for _, v := range m {
			if v != "" {
				vs = append(vs, v)
			}
		}
		sort.Strings(vs)
		if f[0] == "count" {
			return out == fmt.Sprint(len(vs)), state
		}
		return out == strings.Join(vs, ","), state
	}
	return true, state
}
func (k *lsKV) final(ops []lsOp) string { return "" }

// ---- per-session filter list ----
type lsSessTopics struct{ s *sessions.Session }

func (x *lsSessTopics) exec(s *Step) string {
	switch s.K {
	case "add":
		x.s.AddTopic([]byte(s.T))
	case "remove":
		x.s.RemoveTopic([]byte(s.T))
	case "topics":
		var ts []string
		for _, t := range x.s.GetTopics() {
			ts = append(ts, string(t))
		}
		sort.Strings(ts)
		return strings.Join(ts, ",")
	}
	return ""
}
func (x *lsSessTopics) init() string { return "" }
func (x *lsSessTopics) step(state, in, out string) (bool, string) {
	f := strings.Split(in, "|")
	m := parseKV(state)
	switch f[0] {
	case "add":
		m[f[2]] = "1"
		return true, fmtKV(m)
	case "remove":
		delete(m, f[2])
		return true, fmtKV(m)
	case "topics":
		var ts []string
		for k := range m {
			ts = append(ts, k)
		}
		sort.Strings(ts)
		return out == strings.Join(ts, ","), state
	}
	return true, state
}
func (x *lsSessTopics) final(ops []lsOp) string { return "" }

// ---- in-flight table ----
type lsAckq struct {
	q     ack.Queue
	mu    sync.Mutex // protects fired (the harness's own bookkeeping, properly synchronised)
	fired map[string]int
	exp   map[string]int
}

func (a *lsAckq) cb(key string) ack.Callback {
	return func(expired bool, stored, received packet.Packet) {
		a.mu.Lock()
		a.fired[key]++
		if expired {
			a.exp[key]++
		}
		a.mu.Unlock()
	}
}
func (a *lsAckq) exec(s *Step) string {
	key := fmt.Sprintf("%s/%d", s.S, s.I)
	switch s.K {
	case "ins":
		err := a.q.Insert(s.S, &packet.Publish{Header: &packet.Header{Qos: 1}, MessageId: int32(s.I)}, t0.Add(time.Duration(s.J)*time.Millisecond), a.cb(key))
		if err != nil {
			return "err"
		}
		return "ok"
	case "ack":
		typ := byte(s.Q)
		var p packet.Packet = &packet.PubAck{Header: &packet.Header{}, MessageId: int32(s.I)}
		if typ != packet.PUBACK {
			p = &packet.PubRec{Header: &packet.Header{}, MessageId: int32(s.I)}
		}
		if err := a.q.Ack(s.S, p); err != nil {
			return "err"
		}
		return "ok"
	case "sweep":
		a.q.Expire(t0.Add(time.Duration(s.J) * time.Millisecond))
	}
	return ""
}
func (a *lsAckq) init() string { return "" }

// The in-flight table is judged by invariants (exactly-once resolution, distinct keys independent)
// rather than by a full linearizability model: the outcome of racing Ack/Expire on one key is
// legitimately either, what matters is that it is exactly one.
func (a *lsAckq) step(state, in, out string) (bool, string) { return true, state }
func (a *lsAckq) final(ops []lsOp) string {
	// a far-future sweep resolves whatever is left
	a.q.Expire(t0.Add(1000 * time.Hour))
	inserted := map[string]int{}
	acked := map[string]int{}
	for _, op := range ops {
		f := strings.Split(op.in, "|")
		key := fmt.Sprintf("%s/%s", f[1], f[3])
		if f[0] == "ins" && op.out == "ok" {
			inserted[key]++
		}
		if f[0] == "ack" && op.out == "ok" {
			acked[key]++
		}
	}
	a.mu.Lock()
	defer a.mu.Unlock()
	for key, n := range inserted {
		if a.fired[key] != n {
			return fmt.Sprintf("entry %s was registered %d times and resolved %d times (%d of them by expiry, %d acknowledgements accepted)", key, n, a.fired[key], a.exp[key], acked[key])
		}
		if a.fired[key]-a.exp[key] != acked[key] {
			return fmt.Sprintf("entry %s: %d acknowledgements were accepted but %d 'acknowledged' callbacks ran", key, acked[key], a.fired[key]-a.exp[key])
		}
	}
	for key, n := range a.fired {
		if inserted[key] == 0 && n > 0 {
			return fmt.Sprintf("a callback ran for %s which was never registered successfully", key)
		}
	}
	return ""
}

// ---- expiry list used directly (its own locks are its concurrency contract) ----
type lsExpList struct{ l expiration.List }

func (x *lsExpList) exec(s *Step) string {
	switch s.K {
	case "lins":
		x.l.Insert(s.S, t0.Add(time.Duration(s.J)*time.Millisecond))
		return "ok"
	case "ldel":
		if x.l.Delete(s.S, t0.Add(time.Duration(s.J)*time.Millisecond)) {
			return "true"
		}
		return "false"
	case "lupd":
		x.l.Update(s.S, t0.Add(time.Duration(s.J)*time.Millisecond), t0.Add(time.Duration(s.I)*time.Millisecond))
		return "ok"
	case "lsweep":
		var ids []string
		for _, v := range x.l.Expire(t0.Add(time.Duration(s.J) * time.Millisecond)) {
			ids = append(ids, fmt.Sprint(v))
		}
		sort.Strings(ids)
		return strings.Join(ids, ",")
	}
	return ""
}
func (x *lsExpList) init() string                              { return "" }
func (x *lsExpList) step(state, in, out string) (bool, string) { return true, state }

// Every identifier is inserted once, by one task, which is also the only one to delete or move
// it: whatever the schedule, it leaves the list exactly once (a successful Delete or one Expire
// result), and a Delete with the deadline the owner last gave it may only fail when a sweep that
// had started by then returned it.
func (x *lsExpList) final(ops []lsOp) string {
	var rest []string
	for _, v := range x.l.Expire(t0.Add(1000 * time.Hour)) {
		rest = append(rest, fmt.Sprint(v))
	}
	inserted := map[string]bool{}
	deleted := map[string]int{}
	expired := map[string]int{}
	firstSweep := map[string]int64{} // call stamp of the earliest sweep that returned the id
	for _, op := range ops {
		f := strings.Split(op.in, "|")
		switch f[0] {
		case "lins":
			inserted[f[1]] = true
		case "ldel":
			if op.out == "true" {
				deleted[f[1]]++
			}
		case "lsweep":
			if op.out != "" {
				for _, id := range strings.Split(op.out, ",") {
					expired[id]++
					if c, ok := firstSweep[id]; !ok || op.call < c {
						firstSweep[id] = op.call
					}
				}
			}
		}
	}
	for _, id := range rest {
		expired[id]++
	}
	for id := range inserted {
		if deleted[id]+expired[id] != 1 {
			return fmt.Sprintf("identifier %s was inserted once but left the list %d times (%d successful deletes, %d times returned by Expire)", id, deleted[id]+expired[id], deleted[id], expired[id])
		}
	}
	for id, n := range expired {
		if !inserted[id] && n > 0 {
			return fmt.Sprintf("Expire returned %s which was never inserted", id)
		}
	}
	// per owner, in program order: a failed delete needs an explanation
	byTask := map[int][]lsOp{}
	for _, op := range ops {
		byTask[op.task] = append(byTask[op.task], op)
	}
	for _, tops := range byTask {
		gone := map[string]bool{}
		for _, op := range tops {
			f := strings.Split(op.in, "|")
			if f[0] != "ldel" {
				continue
			}
			id := f[1]
			if op.out == "true" {
				gone[id] = true
				continue
			}
			if !inserted[id] || gone[id] {
				continue
			}
			if c, ok := firstSweep[id]; ok && c < op.ret {
				continue
			}
			return fmt.Sprintf("Delete(%s) with the deadline its owner gave it failed although no sweep had returned it and it had not been deleted", id)
		}
	}
	return ""
}

// ---- replicated state ----
type lsRepl struct {
	st      distributed.State
	bcast   *memberlist.TransmitLimitedQueue
	foreign [][]byte // broadcasts captured from another replica before the tasks start
	restore func()
	clk     int64
	clkMu   sync.Mutex
}

//go:norace
func (r *lsRepl) tick() int64 {
	r.clk++
	return 1_000_000 + r.clk
}

func newLsRepl() *lsRepl {
	r := &lsRepl{}
	// a plain counter without any synchronisation of its own (tasks run one at a time): a mutex
	// or an atomic here would add happens-before edges between tasks and hide races from the detector
	r.restore = distributed.VerifSetClock(r.tick)
	other := newReplica(200)
	for i := 0; i < 2; i++ {
		other.st.SessionMetadatas().Create(fmt.Sprintf("fs%d", i), "fc", 1, nil, "_default")
		other.st.Subscriptions().Create(fmt.Sprintf("fs%d", i), []byte(fmt.Sprintf("_default/f/%d", i)), 1)
		other.st.Topics().Set(&packet.Publish{Header: &packet.Header{}, Topic: []byte(fmt.Sprintf("_default/fr/%d", i)), Payload: []byte("fv1")})
	}
	// competing updates to the same keys: whatever subset of them has been delivered, in whatever
	// order and however interleaved, the newest delivered one must win
	other.st.Topics().Set(&packet.Publish{Header: &packet.Header{}, Topic: []byte("_default/fr/0"), Payload: []byte("fv2")})
	other.st.Topics().Delete([]byte("_default/fr/1"))
	other.st.Topics().Set(&packet.Publish{Header: &packet.Header{}, Topic: []byte("_default/fr/0"), Payload: []byte("fv3")})
	other.st.Subscriptions().Delete("fs0", []byte("_default/f/0"))
	other.st.Subscriptions().Create("fs0", []byte("_default/f/0"), 2)
	other.st.SessionMetadatas().Delete("fs1")
	r.foreign = other.drain()
	q := &memberlist.TransmitLimitedQueue{RetransmitMult: 3, NumNodes: func() int { return 0 }}
	r.bcast = q
	r.st = distributed.NewState(100, q, audit.NoneRecorder())
	return r
}
func (r *lsRepl) exec(s *Step) string {
	switch s.K {
	case "screate":
		if r.st.SessionMetadatas().Create(s.S, s.T, 1, nil, "_default") != nil {
			return "err"
		}
	case "sdelete":
		r.st.SessionMetadatas().Delete(s.S)
	case "ucreate":
		r.st.Subscriptions().Create(s.S, []byte(s.T), int32(s.Q))
	case "udelete":
		r.st.Subscriptions().Delete(s.S, []byte(s.T))
	case "tset":
		r.st.Topics().Set(&packet.Publish{Header: &packet.Header{}, Topic: []byte(s.T), Payload: []byte(s.S)})
	case "tdel":
		r.st.Topics().Delete([]byte(s.T))
	case "notify":
		if int(s.I) < len(r.foreign) {
			r.st.Distributor().NotifyMsg(r.foreign[s.I])
		}
	case "mergeall":
		var buf []byte
		for _, m := range r.foreign {
			buf = append(buf, m...)
		}
		r.st.Distributor().MergeRemoteState(buf, false)
	case "snapshot":
		b := r.st.Distributor().LocalState(false)
		ev := &api.StateBroadcastEvent{}
		if proto.Unmarshal(b, ev) != nil {
			return "undecodable"
		}
	case "listing":
		listing(r.st)
	case "bypattern":
		r.st.Subscriptions().ByPattern([]byte(s.T))
	case "byclient":
		r.st.SessionMetadatas().ByClientID(s.T, "_default")
	}
	return ""
}
func (r *lsRepl) init() string                              { return "" }
func (r *lsRepl) step(state, in, out string) (bool, string) { return true, state }
func (r *lsRepl) final(ops []lsOp) string {
	defer r.restore()
	// every effect on a distinct key must be present: tasks use keys tagged with their own index,
	// so the last operation of a task on a key decides its presence
	want := map[string]string{}
	for _, op := range ops {
		f := strings.Split(op.in, "|")
		switch f[0] {
		case "screate":
			if op.out != "err" {
				want["S|"+f[1]] = "present"
			}
		case "sdelete":
			want["S|"+f[1]] = "absent"
		case "ucreate":
			want["U|"+f[2]+"|"+f[1]] = "present"
		case "udelete":
			want["U|"+f[2]+"|"+f[1]] = "absent"
		case "tset":
			want["R|"+f[2]] = "present:" + f[1]
		case "tdel":
			want["R|"+f[2]] = "absent"
		}
	}
	// ops are in per-task order in the slice only per task; keys are per task, so iterate per task order
	got := map[string]string{}
	for _, l := range listing(r.st) {
		k := lineKey(l)
		got[k] = "present"
		if strings.HasPrefix(l, "R|") {
			got[k] = "present:" + strings.Split(l, "|")[2]
		}
	}
	// foreign keys: LWW fold of exactly the foreign updates that were delivered during the run
	delivered := map[int]bool{}
	for _, op := range ops {
		f := strings.Split(op.in, "|")
		switch f[0] {
		case "notify":
			var i int
			fmt.Sscan(f[3], &i)
			if i < len(r.foreign) {
				delivered[i] = true
			}
		case "mergeall":
			for i := range r.foreign {
				delivered[i] = true
			}
		}
	}
	ref := model{}
	for i := range r.foreign {
		if delivered[i] {
			ev := &api.StateBroadcastEvent{}
			if proto.Unmarshal(r.foreign[i], ev) == nil {
				foldEvent(ref, ev, map[string]map[int64]bool{})
			}
		}
	}
	for k, e := range ref {
		g, listed := got[k]
		switch {
		case e.visible && !listed:
			return fmt.Sprintf("foreign entry %s: the newest delivered update says it exists (%s) but it is not listed", k, e.line)
		case !e.visible && listed:
			return fmt.Sprintf("foreign entry %s: the newest delivered update removed it but it is listed", k)
		case e.visible && strings.HasPrefix(k, "R|") && g != "present:"+strings.Split(e.line, "|")[2]:
			return fmt.Sprintf("foreign entry %s: the newest delivered update says %s, the state lists %q (an older update overrode a newer one)", k, e.line, g)
		}
	}
	keys := make([]string, 0, len(want))
	for k := range want {
		keys = append(keys, k)
	}
	sort.Strings(keys)
	for _, k := range keys {
		w := want[k]
		g, ok := got[k]
		if w == "absent" && ok {
			return fmt.Sprintf("%s should be absent after the tasks finished but is listed", k)
		}
		if w != "absent" && g != w {
			return fmt.Sprintf("%s should be %s after the tasks finished, the state lists %q", k, w, g)
		}
	}
	return ""
}

// ---- writer protocol over the in-flight table and the identifier pool (C03) ----
// The harness re-implements, around the real ack.Queue and the real pool, exactly what
// writer.sendQoS1 does with them: allocate an identifier, register the exchange with a callback
// that re-registers it when it expires while the session is alive and releases the identifier
// otherwise. Judged: each exchange ends in exactly one release, never a retransmission after
// its acknowledgement was accepted, and the pool drains back to full.
type lsRetx struct {
	q     ack.Queue
	pool  wasp.VerifMIDPool
	size  int
	mu    sync.Mutex
	alive map[string]bool
	gens  []*retxGen
	lastT map[int]*retxGen // last exchange started by each task
	bad   string
}
type retxGen struct {
	sess           string
	mid            int32
	acked          int
	released       int
	resent         int
	resentAfterAck int
}

func (x *lsRetx) register(g *retxGen, deadlineMs int64) error {
	pkt := &packet.Publish{Header: &packet.Header{Qos: 1}, MessageId: g.mid}
	return x.q.Insert(g.sess, pkt, t0.Add(time.Duration(deadlineMs)*time.Millisecond), func(expired bool, stored, received packet.Packet) {
		x.mu.Lock()
		alive := x.alive[g.sess]
		if expired && alive {
			g.resent++
			if g.acked > 0 {
				g.resentAfterAck++
			}
			x.mu.Unlock()
			x.register(g, deadlineMs+3000)
			return
		}
		if !expired {
			g.acked++
		}
		g.released++
		x.mu.Unlock()
		x.pool.Put(g.mid)
	})
}
func (x *lsRetx) exec(s *Step) string {
	switch s.K {
	case "send":
		mid := x.pool.Get()
		if mid < 1 {
			return "none"
		}
		g := &retxGen{sess: s.S, mid: mid}
		x.mu.Lock()
		x.gens = append(x.gens, g)
		x.lastT[s.C] = g
		x.mu.Unlock()
		if err := x.register(g, s.J); err != nil {
			x.mu.Lock()
			g.released++
			x.mu.Unlock()
			x.pool.Put(mid)
			return "err"
		}
		return "ok"
	case "acklast":
		x.mu.Lock()
		g := x.lastT[s.C]
		x.mu.Unlock()
		if g == nil {
			return "-"
		}
		if x.q.Ack(g.sess, &packet.PubAck{Header: &packet.Header{}, MessageId: g.mid}) != nil {
			return "err"
		}
		return "ok"
	case "sweep":
		x.q.Expire(t0.Add(time.Duration(s.J) * time.Millisecond))
	case "kill":
		x.mu.Lock()
		x.alive[s.S] = false
		x.mu.Unlock()
	}
	return ""
}
func (x *lsRetx) init() string                              { return "" }
func (x *lsRetx) step(state, in, out string) (bool, string) { return true, state }
func (x *lsRetx) final(ops []lsOp) string {
	x.mu.Lock()
	for k := range x.alive {
		x.alive[k] = false
	}
	x.mu.Unlock()
	x.q.Expire(t0.Add(1000 * time.Hour))
	x.mu.Lock()
	defer x.mu.Unlock()
	for i, g := range x.gens {
		if g.resentAfterAck > 0 {
			return fmt.Sprintf("exchange %d (session %s, id %d) was retransmitted %d times after its acknowledgement had been accepted", i, g.sess, g.mid, g.resentAfterAck)
		}
		if g.released != 1 {
			return fmt.Sprintf("exchange %d (session %s, id %d) released its identifier %d times (acknowledged %d times, retransmitted %d times)", i, g.sess, g.mid, g.released, g.acked, g.resent)
		}
	}
	free := 0
	for i := 0; i < x.size+2; i++ {
		if x.pool.Get() < 1 {
			break
		}
		free++
	}
	if free != x.size {
		return fmt.Sprintf("all sessions are gone and every exchange resolved, yet the pool has %d free identifiers of %d", free, x.size)
	}
	return ""
}

// ---- origin side of replication (C09 under concurrency) ----
// Several tasks change the same session, subscription and retained keys on one node at the same
// time (the broker runs 20 publish workers and one goroutine per connection). Whatever order the
// node applied them in locally, a second node that receives every broadcast it queued must end
// up listing exactly what the first lists.
type lsOrigin struct {
	r *lsRepl
}

func (o *lsOrigin) exec(s *Step) string                       { return o.r.exec(s) }
func (o *lsOrigin) init() string                              { return "" }
func (o *lsOrigin) step(state, in, out string) (bool, string) { return true, state }
func (o *lsOrigin) final(ops []lsOp) string {
	defer o.r.restore()
	var msgs [][]byte
	for {
		b := o.r.bcast.GetBroadcasts(0, 1<<30)
		if len(b) == 0 {
			break
		}
		msgs = append(msgs, b...)
	}
	recv := newReplica(300)
	for _, m := range msgs {
		recv.st.Distributor().NotifyMsg(m)
	}
	a, b := listing(o.r.st), listing(recv.st)
	if x, y := diffLists(a, b); len(x)+len(y) > 0 {
		return fmt.Sprintf("after concurrent local changes the origin lists %v that a node fed with all %d broadcasts does not, and lacks %v", x, len(msgs), y)
	}
	return ""
}

// ---------------------------------------------------------------------------------------
// running a case

var lsObjects = []string{"registry", "idpool", "retained", "subscriptions", "sesstopics", "ackq", "repl", "retx", "replmerge", "replorigin", "explist"}

func buildLsObject(c *Case) lsObject {
	switch lsObjects[int(c.knob("obj", 0))%len(lsObjects)] {
	case "registry":
		return newLsRegistry()
	case "idpool":
		min, max := int32(c.knob("min", 1)), int32(c.knob("max", 6))
		return &lsPool{p: wasp.VerifNewMIDPool(min, max), min: min, max: max}
	case "retained":
		return &lsKV{st: &retainedKV{topics.NewTree()}, store: "retained"}
	case "subscriptions":
		return &lsKV{st: &subsKV{subscriptions.NewTree()}, store: "subscriptions"}
	case "sesstopics":
		s, _ := sessions.NewSession("s", "_default", "tcp", nil, &packet.Connect{ClientId: []byte("c")})
		return &lsSessTopics{s: s}
	case "ackq":
		return &lsAckq{q: ack.NewQueue(), fired: map[string]int{}, exp: map[string]int{}}
	case "replmerge":
		return newLsRepl()
	case "replorigin":
		return &lsOrigin{r: newLsRepl()}
	case "explist":
		return &lsExpList{l: expiration.NewList()}
	case "retx":
		return &lsRetx{q: ack.NewQueue(), pool: wasp.VerifNewMIDPool(1, 8), size: 8, alive: map[string]bool{"s1": true, "s2": true}, lastT: map[int]*retxGen{}}
	default:
		return newLsRepl()
	}
}

func runLockstep(t *testing.T, c *Case) *Outcome {
	o := newOutcome()
	prop := c.Prop
	objName := lsObjects[int(c.knob("obj", 0))%len(lsObjects)]
	obj := buildLsObject(c)
	nt := int(c.knob("tasks", 2))
	perTask := make([][]*Step, nt)
	for i := range c.Steps {
		s := &c.Steps[i]
		if s.C >= 0 && s.C < nt {
			perTask[s.C] = append(perTask[s.C], s)
		}
	}
	results := make([][]lsOp, nt)
	bodies := make([]func(int), nt)
	for i := 0; i < nt; i++ {
		bodies[i] = func(i int) {
			var lastGet int32 = -1000
			for _, s := range perTask[i] {
				lsYield(-2, false) // operation boundary
				op := lsOp{task: i, in: opInput(s), call: lsStep()}
				st := s
				if s.K == "putlast" { // release the identifier this task got last
					cp := *s
					cp.K, cp.I = "put", int64(lastGet)
					st = &cp
					op.in = opInput(st)
				}
				op.panicked = catchPanic(func() { op.out = obj.exec(st) })
				if s.K == "get" && objName == "idpool" {
					fmt.Sscan(op.out, &lastGet)
				}
				op.ret = lsStep()
				results[i] = append(results[i], op)
				if op.panicked != "" {
					return
				}
			}
		}
	}
	choices, deadlock, sites := runTasks(mix(c.Seed, "sched"), c.Sched, bodies)
	c.Sched = nil // the recorded schedule is attached to violations below
	attrs := func() map[string]string { return map[string]string{"object": objName} }
	o.Stats["scheduling_points"] += int64(len(choices))
	o.Stats["yield_sites_reached"] += int64(sites)
	o.OrderHash = hashStrings([]string{fmt.Sprint(choices)})
	o.Fingerprint = fingerprintSteps(c) + o.OrderHash
	withSched := func() { c.Sched = choices }
	if deadlock {
		withSched()
		o.violate(prop, "deadlock", len(c.Steps), 0, attrs(), "every unfinished task is blocked on a lock after %d scheduling points", len(choices))
		return o
	}
	var all []lsOp
	for i := range results {
		all = append(all, results[i]...)
	}
	for _, op := range all {
		if op.panicked != "" {
			withSched()
			a := attrs()
			a["op"] = strings.Split(op.in, "|")[0]
			o.violate(prop, "panic", len(c.Steps), 0, a, "%s panicked in task %d: %s", op.in, op.task, op.panicked)
			return o
		}
	}
	// (1) data races reported during this run
	for _, rr := range newRaceReports() {
		withSched()
		a := attrs()
		a["a"], a["b"] = rr.a, rr.b
		o.violate(prop, "data-race", len(c.Steps), 0, a, "the race detector reported unsynchronised conflicting accesses: %s <-> %s", rr.a, rr.b)
	}
	// (2) linearizability against the sequential model
	model := porcupine.Model{
		Init: func() interface{} { return obj.init() },
		Step: func(state, in, out interface{}) (bool, interface{}) {
			ok, ns := obj.step(state.(string), in.(string), out.(string))
			return ok, ns
		},
	}
	var pops []porcupine.Operation
	for _, op := range all {
		pops = append(pops, porcupine.Operation{ClientId: op.task, Input: op.in, Output: op.out, Call: op.call, Return: op.ret})
	}
	if len(pops) <= 24 {
		res := porcupine.CheckOperationsTimeout(model, pops, 10*time.Second)
		if res == porcupine.Illegal {
			withSched()
			var b bytes.Buffer
			for _, op := range all {
				fmt.Fprintf(&b, " [t%d %s -> %q @%d-%d]", op.task, op.in, op.out, op.call, op.ret)
			}
			o.violate(prop, "not-linearizable", len(c.Steps), 0, attrs(), "no sequential order of the operations explains their results:%s", b.String())
		} else if res == porcupine.Unknown {
			o.probe("linearizability_check_timed_out")
		}
	}
	// (3) object invariants
	if msg := obj.final(all); msg != "" {
		withSched()
		o.violate(prop, "invariant", len(c.Steps), 0, attrs(), "%s", msg)
	}
	for _, rr := range newRaceReports() { // races inside final()
		_ = rr
	}
	o.Stats["obj."+objName]++
	var dg []string
	dg = append(dg, fmt.Sprint(choices))
	for _, op := range all {
		dg = append(dg, fmt.Sprintf("%d %s %s %d %d", op.task, op.in, op.out, op.call, op.ret))
	}
	o.Digest = hashStrings(dg)
	o.Nontrivial = len(all) >= 2 && nt >= 2
	return o
}

// ---------------------------------------------------------------------------------------
// generators

func genLsOps(r *Rand, objIdx int, c *Case, nt int, perTask int) {
	switch lsObjects[objIdx] {
	case "registry":
		ids := []string{"k1", "k2", "k3"}
		for i := 0; i < nt; i++ {
			for n := 0; n < perTask; n++ {
				switch r.Intn(5) {
				case 0, 1:
					c.Steps = append(c.Steps, Step{K: "create", C: i, S: r.Pick(ids), T: r.Pick([]string{"a", "b", "c", "d", "e", "f"})})
				case 2:
					c.Steps = append(c.Steps, Step{K: "delete", C: i, S: r.Pick(ids)})
				case 3:
					c.Steps = append(c.Steps, Step{K: "get", C: i, S: r.Pick(ids)})
				default:
					c.Steps = append(c.Steps, Step{K: "list", C: i})
				}
			}
		}
	case "idpool":
		c.Knobs["min"], c.Knobs["max"] = 1, int64(r.PickInt([]int{2, 3, 6, 500}))
		for i := 0; i < nt; i++ {
			for n := 0; n < perTask; n++ {
				switch r.Intn(6) {
				case 0, 1, 2:
					c.Steps = append(c.Steps, Step{K: "get", C: i})
				case 3, 4:
					c.Steps = append(c.Steps, Step{K: "putlast", C: i})
				default:
					c.Steps = append(c.Steps, Step{K: "put", C: i, I: int64(r.Range(0, 7))})
				}
			}
		}
	case "retained", "subscriptions":
		for i := 0; i < nt; i++ {
			for n := 0; n < perTask; n++ {
				k := r.Pick(c19Keys)
				switch r.Intn(8) {
				case 0, 1, 2:
					c.Steps = append(c.Steps, Step{K: "ins", C: i, T: k, S: fmt.Sprintf("v%d.%d", i, n)})
				case 3:
					c.Steps = append(c.Steps, Step{K: "rem", C: i, T: k})
				case 4:
					if lsObjects[objIdx] == "retained" {
						// the retained store has no atomic read-modify-write of its own
						c.Steps = append(c.Steps, Step{K: "ins", C: i, T: k, S: fmt.Sprintf("w%d.%d", i, n)})
					} else {
						c.Steps = append(c.Steps, Step{K: "ups", C: i, T: k, S: fmt.Sprintf("+%d.%d", i, n)})
					}
				case 5, 6:
					c.Steps = append(c.Steps, Step{K: "get", C: i, T: k})
				default:
					c.Steps = append(c.Steps, Step{K: r.Pick([]string{"all", "count"}), C: i})
				}
			}
		}
	case "sesstopics":
		ts := []string{"_default/a", "_default/b", "_default/c"}
		for i := 0; i < nt; i++ {
			for n := 0; n < perTask; n++ {
				switch r.Intn(4) {
				case 0, 1:
					c.Steps = append(c.Steps, Step{K: "add", C: i, T: r.Pick(ts)})
				case 2:
					c.Steps = append(c.Steps, Step{K: "remove", C: i, T: r.Pick(ts)})
				default:
					c.Steps = append(c.Steps, Step{K: "topics", C: i})
				}
			}
		}
	case "ackq":
		for i := 0; i < nt; i++ {
			for n := 0; n < perTask; n++ {
				switch r.Intn(6) {
				case 0, 1, 2:
					c.Steps = append(c.Steps, Step{K: "ins", C: i, S: r.Pick([]string{"s1", "s2"}), I: int64(r.Range(1, 3)), J: c04Lattice[r.Intn(len(c04Lattice))]})
				case 3, 4:
					c.Steps = append(c.Steps, Step{K: "ack", C: i, S: r.Pick([]string{"s1", "s2"}), I: int64(r.Range(1, 3)), Q: r.PickInt([]int{4, 4, 4, 5})})
				default:
					c.Steps = append(c.Steps, Step{K: "sweep", C: i, J: []int64{0, 900, 1600, 2500, 4200}[r.Intn(5)]})
				}
			}
		}
	case "explist":
		// ids are owned by the inserting task; deadlines cluster in a few seconds so that concurrent
		// inserts meet in one bucket, some of them in a second that has no bucket yet
		for i := 0; i < nt; i++ {
			type own struct {
				id string
				d  int64
			}
			var mine []own
			for n := 0; n < perTask+1; n++ {
				k := r.Intn(8)
				if len(mine) == 0 && k >= 4 && k <= 6 {
					k = 0
				}
				switch k {
				case 0, 1, 2, 3:
					d := c04Lattice[r.Intn(len(c04Lattice))]
					id := fmt.Sprintf("i%d.%d", i, n)
					mine = append(mine, own{id, d})
					c.Steps = append(c.Steps, Step{K: "lins", C: i, S: id, J: d})
				case 4, 5:
					o := mine[r.Intn(len(mine))]
					c.Steps = append(c.Steps, Step{K: "ldel", C: i, S: o.id, J: o.d})
				case 6:
					j := r.Intn(len(mine))
					nd := c04Lattice[r.Intn(len(c04Lattice))]
					c.Steps = append(c.Steps, Step{K: "lupd", C: i, S: mine[j].id, J: mine[j].d, I: nd})
					mine[j].d = nd
				default:
					c.Steps = append(c.Steps, Step{K: "lsweep", C: i, J: []int64{0, 900, 1600, 2500, 4200}[r.Intn(5)]})
				}
			}
		}
	case "replorigin": // every task works on the same few keys
		for i := 0; i < nt; i++ {
			for n := 0; n < perTask+1; n++ {
				switch r.Intn(8) {
				case 0, 1, 2:
					c.Steps = append(c.Steps, Step{K: "tset", C: i, T: r.Pick([]string{"_default/r/x", "_default/r/y"}), S: fmt.Sprintf("v%d.%d", i, n)})
				case 3:
					c.Steps = append(c.Steps, Step{K: "tdel", C: i, T: r.Pick([]string{"_default/r/x", "_default/r/y"})})
				case 4, 5:
					c.Steps = append(c.Steps, Step{K: "ucreate", C: i, S: "sx", T: r.Pick([]string{"_default/a", "_default/a/b"}), Q: r.Intn(3)})
				case 6:
					c.Steps = append(c.Steps, Step{K: "udelete", C: i, S: "sx", T: r.Pick([]string{"_default/a", "_default/a/b"})})
				default:
					if r.Bool(0.5) {
						c.Steps = append(c.Steps, Step{K: "screate", C: i, S: "sx", T: fmt.Sprintf("c%d", i)})
					} else {
						c.Steps = append(c.Steps, Step{K: "sdelete", C: i, S: "sx"})
					}
				}
			}
		}
	case "replmerge":
		for i := 0; i < nt; i++ {
			for n := 0; n < perTask+1; n++ {
				switch r.Intn(8) {
				case 0:
					c.Steps = append(c.Steps, Step{K: "mergeall", C: i})
				case 1:
					c.Steps = append(c.Steps, Step{K: r.Pick([]string{"listing", "snapshot"}), C: i})
				default:
					c.Steps = append(c.Steps, Step{K: "notify", C: i, I: int64(r.Intn(12))})
				}
			}
		}
	case "retx":
		for i := 0; i < nt; i++ {
			for n := 0; n < perTask; n++ {
				switch r.Intn(8) {
				case 0, 1, 2:
					c.Steps = append(c.Steps, Step{K: "send", C: i, S: r.Pick([]string{"s1", "s2"}), J: c04Lattice[r.Intn(len(c04Lattice))]})
				case 3, 4:
					c.Steps = append(c.Steps, Step{K: "acklast", C: i})
				case 5, 6:
					c.Steps = append(c.Steps, Step{K: "sweep", C: i, J: []int64{900, 1600, 2500, 4200, 7500}[r.Intn(5)]})
				default:
					c.Steps = append(c.Steps, Step{K: "kill", C: i, S: r.Pick([]string{"s1", "s2"})})
				}
			}
		}
	default: // repl: keys are tagged with the task index so that distinct-key effects are unambiguous
		for i := 0; i < nt; i++ {
			for n := 0; n < perTask; n++ {
				switch r.Intn(12) {
				case 0, 1:
					c.Steps = append(c.Steps, Step{K: "screate", C: i, S: fmt.Sprintf("s%d.%d", i, r.Intn(2)), T: fmt.Sprintf("c%d", i)})
				case 2:
					c.Steps = append(c.Steps, Step{K: "sdelete", C: i, S: fmt.Sprintf("s%d.%d", i, r.Intn(2))})
				case 3, 4:
					c.Steps = append(c.Steps, Step{K: "ucreate", C: i, S: fmt.Sprintf("s%d.0", i), T: r.Pick([]string{"_default/a", "_default/a/b", "_default/+"}), Q: 1})
				case 5:
					c.Steps = append(c.Steps, Step{K: "udelete", C: i, S: fmt.Sprintf("s%d.0", i), T: r.Pick([]string{"_default/a", "_default/a/b", "_default/+"})})
				case 6:
					c.Steps = append(c.Steps, Step{K: "tset", C: i, T: fmt.Sprintf("_default/r/%d", i), S: fmt.Sprintf("v%d.%d", i, n)})
				case 7:
					c.Steps = append(c.Steps, Step{K: "notify", C: i, I: int64(r.Intn(12))})
				case 8:
					c.Steps = append(c.Steps, Step{K: r.Pick([]string{"mergeall", "snapshot"}), C: i})
				case 9:
					c.Steps = append(c.Steps, Step{K: "listing", C: i})
				case 10:
					c.Steps = append(c.Steps, Step{K: "bypattern", C: i, T: "_default/a/b"})
				default:
					c.Steps = append(c.Steps, Step{K: "byclient", C: i, T: fmt.Sprintf("c%d", r.Intn(nt))})
				}
			}
		}
	}
}

// ---------------------------------------------------------------------------------------
// C20, whole-broker variant: the E1 scenarios of other properties (routing, QoS exchanges with
// retransmission and expiry sweeps, session life cycles, takeovers over 1-3 nodes with gossip
// merges) executed on the statement-instrumented build under seeded preemption with the race
// detector on; neighbouring client requests are handed over in the same driver turn. The
// oracles are the race detector (both accesses inside wasp), panics and hangs.

func genC20E1(r *Rand, tier, profile string) *Case {
	var c *Case
	base := r.Intn(7)
	switch base {
	case 0:
		c = genC01(r, tier, "")
	case 1:
		c = genC03(r, tier, "")
	case 2:
		c = genC11(r, tier, "")
	case 3:
		c = genC12(r, tier, "")
	case 4:
		c = genC07(r, tier, "")
	default:
		// inbound publishes of several publishers with injected log and RPC failures
		c = genC05(r, tier, "")
	}
	c.Profile = "e1mix"
	if c.Knobs == nil {
		c.Knobs = map[string]int64{}
	}
	c.Knobs["base"] = int64(base)
	c.Knobs["preempt_permille"] = int64(r.PickInt([]int{2, 10, 40, 120}))
	for i := 0; i+1 < len(c.Steps); i++ {
		switch c.Steps[i].K {
		case "settle", "sleep", "stopnode", "partition", "heal":
			continue
		}
		switch c.Steps[i+1].K {
		case "settle", "sleep", "stopnode", "partition", "heal":
			continue
		}
		if r.Bool(0.3) {
			c.Steps[i].W = true
			c.Steps[i+1].At = 0
		}
	}
	return c
}

func runC20E1(t *testing.T, c *Case) *Outcome {
	o := runE1(t, c, profileHooks{})
	o.Nontrivial = len(c.Steps) >= 4
	return o
}

func genLockstep(objs []int) func(r *Rand, tier, profile string) *Case {
	return func(r *Rand, tier, profile string) *Case {
		c := &Case{Profile: "lockstep", Knobs: map[string]int64{}}
		obj := objs[r.Intn(len(objs))]
		c.Knobs["obj"] = int64(obj)
		nt := r.Range(2, 3)
		if r.Bool(0.15) {
			nt = 4
		}
		c.Knobs["tasks"] = int64(nt)
		per := r.Range(1, 4)
		if tier == "thorough" && r.Bool(0.3) {
			per = r.Range(3, 6)
		}
		genLsOps(r, obj, c, nt, per)
		return c
	}
}

func init() {
	real := []string{"wasp.lockedMapState, wasp.simpleMidPool, wasp/ack.Queue + expiration lists, topics.Store, subscriptions.Tree, wasp/distributed.State, wasp/sessions.Session (all instrumented with a yield before every statement and scheduler-aware try-locks)", "Go race detector (ThreadSanitizer)"}
	stub := []string{"goroutine scheduling: tasks released one at a time by the simulator through raw pipe syscalls (no happens-before edges of its own)", "gotomic.Hash, memberlist.TransmitLimitedQueue, protobuf: not instrumented, atomic steps between yields"}
	assume := []string{"the race detector keeps a bounded access history per location", "linearizability is checked with porcupine for histories of up to 24 operations; a timed-out check is inconclusive and never reported", "the in-flight table and the replicated state are judged by invariants (exactly-once resolution, distinct-key effects present) plus the race detector, not by a full linearizability model"}
	all := []int{0, 1, 2, 3, 4, 5, 6, 7, 8, 9, 10}
	register(&Check{ID: "C09", Level: "exploration", Build: "lockstep", Gen: genLockstep([]int{9}), Run: runLockstep, QuickS: 15, ThoroughS: 200,
		Rule: "concurrent variant: 2-4 tasks changing the same session, subscription and retained keys on one node under PRNG statement-level schedules, race detector on; afterwards a fresh node fed with every broadcast the origin queued must list exactly what the origin lists",
		Real: real, Stub: stub, Assume: assume})
	register(&Check{ID: "C08", Level: "exploration", Build: "lockstep", Gen: genLockstep([]int{8}), Run: runLockstep, QuickS: 15, ThoroughS: 200,
		Rule: "concurrent variant: 2-4 tasks delivering competing updates for the same session, subscription and retained keys (NotifyMsg one at a time, MergeRemoteState batched) to one replica under PRNG statement-level schedules, race detector on; afterwards every key must show the newest of the updates that were delivered (memberlist calls these entry points from several goroutines)",
		Real: real, Stub: stub, Assume: assume})
	register(&Check{ID: "C03", Level: "exploration", Build: "lockstep", Gen: genLockstep([]int{7}), Run: runLockstep, QuickS: 15, ThoroughS: 200,
		Rule: "concurrent variant: 2-4 tasks driving the writer's protocol (allocate an identifier, register with the retransmit-or-release callback, acknowledge, sweep, end a session) on the real in-flight table and pool under PRNG statement-level schedules, race detector on; each exchange releases its identifier exactly once, is never retransmitted after its acknowledgement was accepted, and the pool drains back to full",
		Real: real, Stub: append([]string{"writer.sendQoS1's use of the table and the pool is re-implemented by the harness around the real objects (the writer's own methods are unexported)"}, stub...), Assume: assume})
	register(&Check{ID: "C20", Level: "exploration", Build: "lockstep", Gen: genLockstep(all), Run: runLockstep, QuickS: 40, ThoroughS: 600,
		Rule: "a case = 2-4 tasks with 1-6 operations each on one shared object (session registry, identifier pool, retained trie, subscription trie, per-session filter list, in-flight table, its timeout list, replicated state) plus the PRNG schedule taken at every statement-level yield; non-trivial when >=2 tasks and >=2 operations; distinct by hash of (operations, schedule)",
		Real: real, Stub: stub, Assume: assume})
	register(&Check{ID: "C20", Variant: "e1", Statistical: true, Level: "exploration", Build: "lockstep", Gen: genC20E1, Run: runC20E1, QuickS: 30, ThoroughS: 480,
		Rule: "whole-broker variant: the simulated scenarios of C01, C03, C05, C07, C11 and C12 (1-3 brokers, clients, gossip, RPC, fake clock) executed on the statement-instrumented build under seeded preemption (runtime.Gosched at PRNG-chosen statements, one P) with the race detector on, neighbouring client requests handed to the brokers in the same driver turn; violations are race reports whose two accesses are both in wasp code, panics, and hangs (no goroutine running, one waiting for a lock)",
		Real: e1Real, Stub: append([]string{"goroutine scheduling inside the broker: Go runtime with one P plus PRNG-chosen runtime.Gosched() at instrumented statements"}, e1Stub...),
		Assume: []string{"race reports whose innermost frames are in a dependency (vx-labs/commitlog cursor vs writer) are counted by a probe and not reported: they are outside this repository"}})
	register(&Check{ID: "C04", Level: "exploration", Build: "lockstep", Gen: genLockstep([]int{5, 5, 10}), Run: runLockstep, QuickS: 15, ThoroughS: 200,
		Rule: "concurrent variant: 2-4 tasks registering, acknowledging and sweeping on one ack.Queue, or inserting, deleting, moving and sweeping on one expiration.List, under PRNG statement-level schedules, race detector on; exactly-once resolution per registered entry",
		Real: real, Stub: stub, Assume: assume})
	register(&Check{ID: "C06", Level: "exploration", Build: "lockstep", Gen: genLockstep([]int{1}), Run: runLockstep, QuickS: 15, ThoroughS: 200,
		Rule: "concurrent variant: 2-4 tasks allocating and releasing on one pool under PRNG statement-level schedules, race detector on; linearizable against the set model (ids handed out concurrently are distinct)",
		Real: real, Stub: stub, Assume: assume})
	register(&Check{ID: "C19", Level: "exploration", Build: "lockstep", Gen: genLockstep([]int{2, 3}), Run: runLockstep, QuickS: 15, ThoroughS: 200,
		Rule: "concurrent variant: 2-4 tasks inserting, replacing, removing, upserting and querying keys with shared prefixes on one store under PRNG statement-level schedules, race detector on; linearizable against a map over full topic strings",
		Real: real, Stub: stub, Assume: assume})
}
