package h

// E2 "logcrash" (C15): the real messages.Log on tmpfs, a producer and the real Consume loop,
// with crash/restart rounds. Runs inside a synctest bubble only so that the 100 ms poller of
// the commit log costs nothing.
//
// Steps:
//   append I=count                      producer appends count entries (payload e<offset>)
//   wait   I=ms                         let simulated time pass
//   arm    S=entry|exit I=k             the kill will happen at the k-th callback from now (appends that follow feed it)
//   crash  S=entry|exit|idle|graceful|await I=k   kill the consuming process at the k-th callback from now (await: at the armed one)
//                                       (entry: inside the callback, nothing done for that offset;
//                                        exit: callback done, offset not yet persisted; idle: right now)
// Crash = the data directory is copied at that instant (what SIGKILL leaves in the page cache:
// completed writes and shared-mmap stores), the old instance is abandoned, the next incarnation
// opens the copy. graceful = context cancel + Close, then reopen the same directory.

import (
	"context"
	"errors"
	"fmt"
	"io"
	"os"
	"path/filepath"
	"testing"
	"testing/synctest"
	"time"

	"github.com/vx-labs/mqtt-protocol/packet"
	"github.com/vx-labs/wasp/v4/wasp/messages"
)

type incarnation struct {
	handed     []uint64 // offsets handed to the callback, in order
	payloadBad string
	inCallback int64 // offset inside the callback when the process stopped (-1 none)
	lastDone   int64 // last offset whose callback returned (-1 none)
	mode       string
}

func copyDir(src, dst string) error {
	return filepath.Walk(src, func(p string, info os.FileInfo, err error) error {
		if err != nil {
			if os.IsNotExist(err) {
				return nil
			}
			return err
		}
		rel, _ := filepath.Rel(src, p)
		target := filepath.Join(dst, rel)
		if info.IsDir() {
			return os.MkdirAll(target, 0755)
		}
		in, err := os.Open(p)
		if err != nil {
			if os.IsNotExist(err) {
				return nil // deleted while we were copying: a kill in the middle of truncation
			}
			return err
		}
		defer in.Close()
		out, err := os.OpenFile(target, os.O_CREATE|os.O_WRONLY|os.O_TRUNC, 0650)
		if err != nil {
			return err
		}
		defer out.Close()
		_, err = io.Copy(out, in)
		return err
	})
}

type crashTrigger struct {
	mode      string
	countdown int
	hit       chan struct{}
	release   chan struct{}
	armed     bool // consumer side: fires once
	active    bool // driver side: an armed kill that has not been carried out yet
}

func runLogCrash(t *testing.T, c *Case) *Outcome {
	o := newOutcome()
	func() {
		defer func() {
			if r := recover(); r != nil {
				msg := fmt.Sprint(r)
				if len(msg) > 8 && msg[:8] == "harness:" {
					fmt.Fprintf(os.Stderr, "HARNESS-TROUBLE: %s\n", msg)
					os.Exit(2)
				}
				panic(r)
			}
		}()
		synctest.Test(t, func(t *testing.T) { logCrashBody(c, o) })
	}()
	o.Fingerprint = fingerprintSteps(c)
	return o
}

func logCrashBody(c *Case, o *Outcome) {
	base := os.Getenv("VERIF_DATA")
	if base == "" {
		base = os.TempDir()
	}
	root, err := os.MkdirTemp(base, "lc-")
	if err != nil {
		panic("harness: " + err.Error())
	}
	defer os.RemoveAll(root)
	hist := []string{}
	defer func() {
		o.History = hist
		o.Digest = hashStrings(hist)
	}()
	gen := 0
	dir := filepath.Join(root, fmt.Sprintf("g%d", gen))
	os.MkdirAll(dir, 0755)
	var appended int64 // number of acknowledged appends == next offset
	var incs []*incarnation
	var trig crashTrigger

	type live struct {
		log    messages.Log
		cancel context.CancelFunc
		done   chan struct{}
		inc    *incarnation
	}
	start := func(dir string) *live {
		l, err := messages.New(dir)
		if err != nil {
			o.violate("C15", "reopen-failed", len(c.Steps), 0, nil, "the message log could not be reopened after a crash: %v", err)
			return nil
		}
		ctx, cancel := context.WithCancel(context.Background())
		inc := &incarnation{inCallback: -1, lastDone: -1}
		incs = append(incs, inc)
		lv := &live{log: l, cancel: cancel, done: make(chan struct{}), inc: inc}
		go func() {
			defer close(lv.done)
			l.Consume(ctx, "publish_distributor", func(off uint64, p *packet.Publish) error {
				inc.handed = append(inc.handed, off)
				inc.inCallback = int64(off)
				if want := fmt.Sprintf("e%d", off); string(p.Payload) != want && inc.payloadBad == "" {
					inc.payloadBad = fmt.Sprintf("offset %d carries %q, appended there: %q", off, trunc(p.Payload), want)
				}
				if trig.armed && trig.mode == "entry" {
					if trig.countdown == 0 {
						trig.armed = false
						trig.hit <- struct{}{}
						<-trig.release
						return errors.New("killed")
					}
					trig.countdown--
				}
				// ... the real callback hands the offset to the writer here ...
				inc.lastDone = int64(off)
				inc.inCallback = -1
				if trig.armed && trig.mode == "exit" {
					if trig.countdown == 0 {
						trig.armed = false
						inc.inCallback = int64(off) // returned, but its offset is not persisted yet
						trig.hit <- struct{}{}
						<-trig.release
						return errors.New("killed")
					}
					trig.countdown--
				}
				return nil
			})
		}()
		// the poller's 100 ms ticker is anchored now; keep the driver off that grid
		time.Sleep(377 * time.Microsecond)
		return lv
	}
	cur := start(dir)
	if cur == nil {
		return
	}
	stopOld := func(lv *live) {
		lv.cancel()
		select {
		case <-lv.done:
		case <-time.After(2 * time.Second):
		}
		lv.log.Close()
	}
	crash := func(si int, mode string, k int) bool {
		snapshot := func() bool {
			gen++
			nd := filepath.Join(root, fmt.Sprintf("g%d", gen))
			if err := copyDir(dir, nd); err != nil {
				panic("harness: snapshot: " + err.Error())
			}
			dir = nd
			return true
		}
		switch mode {
		case "graceful":
			cur.inc.mode = "graceful"
			stopOld(cur)
			o.probe("stop_graceful")
		case "idle":
			cur.inc.mode = "idle"
			synctest.Wait() // the consumer has done whatever the appended entries let it do
			snapshot()
			stopOld(cur)
			o.probe("crash_idle")
		default:
			if !(trig.active && mode == "await") {
				if mode == "await" {
					mode = "entry"
				}
				trig = crashTrigger{mode: mode, countdown: k, hit: make(chan struct{}), release: make(chan struct{}), armed: true, active: true}
			}
			mode = trig.mode
			fired := false
			for waited := 0; waited < 50 && !fired; waited++ {
				select {
				case <-trig.hit:
					fired = true
				case <-time.After(100 * time.Millisecond):
				}
			}
			trig.active = false
			if !fired {
				// nothing (more) to consume: the process dies idle
				trig.armed = false
				cur.inc.mode = "idle"
				snapshot()
				stopOld(cur)
				o.probe("crash_idle")
			} else {
				cur.inc.mode = mode
				snapshot()
				cur.cancel()
				close(trig.release)
				select {
				case <-cur.done:
				case <-time.After(2 * time.Second):
				}
				cur.log.Close()
				o.probe("crash_in_callback_" + mode)
			}
		}
		hist = append(hist, fmt.Sprintf("%d crash %s: handed %d, last done %d, in callback %d", si, cur.inc.mode, len(cur.inc.handed), cur.inc.lastDone, cur.inc.inCallback))
		o.cover(fmt.Sprintf("%s@%d/%d", cur.inc.mode, cur.inc.inCallback, appended))
		cur = start(dir)
		return cur != nil
	}

	for si := range c.Steps {
		s := &c.Steps[si]
		switch s.K {
		case "append":
			for i := int64(0); i < s.I; i++ {
				err := cur.log.Append(&packet.Publish{Header: &packet.Header{}, Topic: []byte("_default/t"), Payload: []byte(fmt.Sprintf("e%d", appended))})
				if err != nil {
					o.violate("C15", "append-failed", si, 0, nil, "append number %d failed: %v", appended, err)
					return
				}
				appended++
			}
			hist = append(hist, fmt.Sprintf("%d append -> %d", si, appended))
		case "wait":
			time.Sleep(time.Duration(s.I) * time.Millisecond)
			synctest.Wait()
		case "arm":
			// the kill will happen at the k-th callback from now; appends that follow feed it
			if trig.active {
				continue
			}
			trig = crashTrigger{mode: s.S, countdown: int(s.I), hit: make(chan struct{}), release: make(chan struct{}), armed: true, active: true}
		case "crash":
			mode := s.S
			if trig.active {
				mode = "await" // an armed kill is resolved first, whatever this step asked for
			}
			if !crash(si, mode, int(s.I)) {
				return
			}
		}
	}
	if trig.active {
		if !crash(len(c.Steps), "await", 0) {
			return
		}
	}
	// let the last incarnation drain, then stop it
	for i := 0; i < 200; i++ {
		time.Sleep(100 * time.Millisecond)
		synctest.Wait()
		if n := len(cur.inc.handed); n > 0 && int64(cur.inc.handed[n-1]) >= appended-1 {
			break
		}
	}
	cur.inc.mode = "end"
	stopOld(cur)

	// ---- oracle over the per-incarnation sequences -------------------------------------
	seen := map[uint64]int{}
	lastDone := int64(-1) // last offset whose callback returned, over all incarnations so far
	floor := int64(0)     // smallest offset the next incarnation may legitimately start at
	prevMode := ""
	for r, inc := range incs {
		if inc.payloadBad != "" {
			o.violate("C15", "wrong-payload", len(c.Steps), 0, nil, "incarnation %d: %s", r, inc.payloadBad)
		}
		for i, off := range inc.handed {
			seen[off]++
			if i > 0 && off != inc.handed[i-1]+1 {
				o.violate("C15", "out-of-order", len(c.Steps), 0, map[string]string{"gap": fmt.Sprint(off > inc.handed[i-1]+1)}, "incarnation %d handed offset %d right after %d", r, off, inc.handed[i-1])
				break
			}
		}
		if r > 0 && len(inc.handed) > 0 {
			first := int64(inc.handed[0])
			if first > lastDone+1 {
				o.violate("C15", "skipped", len(c.Steps), 0, map[string]string{"stop": prevMode}, "incarnation %d (after a %s stop) starts at offset %d although the last offset handed over before was %d", r, prevMode, first, lastDone)
			}
			if first < floor {
				o.violate("C15", "replayed-too-much", len(c.Steps), 0, map[string]string{"stop": prevMode, "extra": fmt.Sprint(floor - first)},
					"incarnation %d (after a %s stop) starts at offset %d; every offset below %d had been handed over completely before the process stopped, so at most offset %d may be replayed", r, prevMode, first, floor, floor)
			}
		}
		// progress made by this incarnation
		if inc.lastDone > lastDone {
			lastDone = inc.lastDone
		}
		if inc.mode == "exit" && inc.inCallback > lastDone {
			lastDone = inc.inCallback // its callback did return
		}
		if len(inc.handed) > 0 {
			if inc.inCallback >= 0 {
				floor = inc.inCallback // the message being processed may be replayed
			} else {
				floor = inc.lastDone + 1
			}
			prevMode = inc.mode
		} else if prevMode == "" {
			prevMode = inc.mode
		}
	}
	for off := int64(0); off < appended; off++ {
		if seen[uint64(off)] == 0 {
			o.violate("C15", "never-handed-over", len(c.Steps), 0, map[string]string{"boundary": boundaryOf(off)}, "offset %d of %d appended entries was never handed to the delivery scheduler in any of the %d incarnations", off, appended, len(incs))
			break
		}
	}
	o.Stats["incarnations"] += int64(len(incs))
	o.Stats["entries"] += appended
	if appended > 500 {
		o.probe("segment_roll_crossed")
	}
	if appended > 2000 {
		o.probe("truncation_executed")
	}
	o.Nontrivial = len(incs) >= 2 && appended > 0
	o.SimMs = 0
}

func describeInCallback(off int64) string {
	if off < 0 {
		return "idle"
	}
	return fmt.Sprintf("processing offset %d", off)
}

func boundaryOf(off int64) string {
	switch {
	case off == 0:
		return "first"
	case off%500 == 0:
		return "segment-start"
	case off%10 == 0:
		return "batch-start"
	}
	return "other"
}

var c15Lens = []int{1, 2, 3, 9, 10, 11, 12, 19, 20, 21, 30}
var c15Long = []int{499, 500, 501, 510, 999, 1000, 1001, 1499, 1500, 1501, 1510, 1999, 2000, 2001, 2010, 2999, 3000, 3001}

func genC15(r *Rand, tier, profile string) *Case {
	c := &Case{Profile: "logcrash", Knobs: map[string]int64{}}
	total := c15Lens[r.Intn(len(c15Lens))]
	pLong := 0.08
	if tier == "thorough" {
		pLong = 0.35
	}
	if r.Bool(pLong) {
		total = c15Long[r.Intn(len(c15Long))]
	}
	rounds := r.Range(1, 5)
	left := total
	for round := 0; round < rounds && left > 0; round++ {
		n := left
		if round < rounds-1 {
			n = r.Range(1, left)
		}
		left -= n
		n0 := n
		// producer interleaved with the consumer
		for n > 0 {
			k := n
			if r.Bool(0.5) {
				k = r.Range(1, n)
			}
			c.Steps = append(c.Steps, Step{K: "append", I: int64(k)})
			n -= k
			if r.Bool(0.6) {
				c.Steps = append(c.Steps, Step{K: "wait", I: int64(r.PickInt([]int{50, 100, 150, 300, 1000}))})
			}
		}
		mode := r.Pick([]string{"entry", "entry", "exit", "exit", "idle", "graceful"})
		k := r.PickInt([]int{0, 0, 1, 2, 5, 9, 10, 11})
		if total > 100 && r.Bool(0.5) {
			k = r.Intn(total)
		}
		if (mode == "entry" || mode == "exit") && r.Bool(0.7) {
			// arm the kill before this round's appends so that it lands inside them
			at := len(c.Steps) - 1
			for at > 0 && c.Steps[at].K != "crash" {
				at--
			}
			if c.Steps[at].K == "crash" {
				at++
			}
			kk := r.Intn(n0 + 1)
			arm := Step{K: "arm", S: mode, I: int64(kk)}
			c.Steps = append(c.Steps[:at], append([]Step{arm}, c.Steps[at:]...)...)
			c.Steps = append(c.Steps, Step{K: "crash", S: "await"})
		} else {
			c.Steps = append(c.Steps, Step{K: "crash", S: mode, I: int64(k)})
		}
	}
	if left > 0 {
		c.Steps = append(c.Steps, Step{K: "append", I: int64(left)})
	}
	return c
}

func init() {
	register(&Check{ID: "C15", Level: "fault_enumeration", Build: "maporder", Gen: genC15, Run: runLogCrash, QuickS: 30, ThoroughS: 480,
		Rule:   "a case = a producer appending 1-3001 entries (lengths around the batch 10, segment 500 and truncation >1500/%1000 boundaries) interleaved with the real consumer, and 1-5 crash/restart rounds, each killing the consumer inside the callback for the k-th next offset (entry), right after that callback returned (exit), idle, or stopping it gracefully; non-trivial when >=2 incarnations and >=1 entry; distinct by hash of the history",
		Real:   []string{"wasp/messages store (Append, Consume, state file via shared mmap, truncation)", "vx-labs/commitlog (segments, indexes, cursor, stream consumer and poller) on tmpfs"},
		Stub:   []string{"process death: directory snapshot taken at the crash instant, old instance abandoned, next incarnation opens the snapshot", "time: synctest fake clock (100 ms poller)", "delivery scheduler: a recording callback"},
		Assume: []string{"SIGKILL semantics: completed write(2)s and shared-mmap stores survive; power loss (lost page cache, torn sectors) is out of scope", "crash positions are sampled per round (k-th next callback) rather than swept exhaustively over every k of long logs", "a message whose callback returned but whose offset was not yet persisted counts as 'being processed'"}})
}
