package h

// The simulator's own MQTT 3.1.1 codec for the client side, so that oracles do not depend
// on the codec under test.

import (
	"encoding/binary"
	"fmt"
)

const (
	tCONNECT     = 1
	tCONNACK     = 2
	tPUBLISH     = 3
	tPUBACK      = 4
	tPUBREC      = 5
	tPUBREL      = 6
	tPUBCOMP     = 7
	tSUBSCRIBE   = 8
	tSUBACK      = 9
	tUNSUBSCRIBE = 10
	tUNSUBACK    = 11
	tPINGREQ     = 12
	tPINGRESP    = 13
	tDISCONNECT  = 14
)

var typeNames = map[int]string{1: "CONNECT", 2: "CONNACK", 3: "PUBLISH", 4: "PUBACK", 5: "PUBREC", 6: "PUBREL", 7: "PUBCOMP",
	8: "SUBSCRIBE", 9: "SUBACK", 10: "UNSUBSCRIBE", 11: "UNSUBACK", 12: "PINGREQ", 13: "PINGRESP", 14: "DISCONNECT"}

type mpkt struct {
	Type    int
	Flags   byte
	Pid     int
	Topic   string
	Payload []byte
	Qos     int
	Dup     bool
	Retain  bool
	RC      int   // CONNACK return code
	Granted []int // SUBACK
	Raw     int   // encoded length
}

func (p *mpkt) String() string {
	switch p.Type {
	case tPUBLISH:
		return fmt.Sprintf("PUBLISH(pid=%d q=%d dup=%v ret=%v %q %q)", p.Pid, p.Qos, p.Dup, p.Retain, p.Topic, trunc(p.Payload))
	case tCONNACK:
		return fmt.Sprintf("CONNACK(rc=%d)", p.RC)
	case tSUBACK:
		return fmt.Sprintf("SUBACK(pid=%d %v)", p.Pid, p.Granted)
	case tPINGRESP, tPINGREQ, tDISCONNECT:
		return typeNames[p.Type]
	}
	return fmt.Sprintf("%s(pid=%d)", typeNames[p.Type], p.Pid)
}

func trunc(b []byte) string {
	if len(b) > 24 {
		return string(b[:24]) + fmt.Sprintf("…(%d)", len(b))
	}
	return string(b)
}

func encRemLen(n int) []byte {
	var out []byte
	for {
		d := byte(n % 128)
		n /= 128
		if n > 0 {
			d |= 0x80
		}
		out = append(out, d)
		if n == 0 {
			return out
		}
	}
}

func lp(s []byte) []byte {
	out := make([]byte, 2, 2+len(s))
	binary.BigEndian.PutUint16(out, uint16(len(s)))
	return append(out, s...)
}

func frame(typ int, flags byte, body []byte) []byte {
	out := []byte{byte(typ<<4) | flags}
	out = append(out, encRemLen(len(body))...)
	return append(out, body...)
}

type connectOpts struct {
	ClientID    string
	User, Pass  string
	HasUser     bool
	HasPass     bool
	Keepalive   int
	Clean       bool
	WillTopic   string
	WillPayload string
	WillQos     int
	WillRetain  bool
}

func encConnect(o connectOpts) []byte {
	body := lp([]byte("MQTT"))
	body = append(body, 4)
	var fl byte
	if o.Clean {
		fl |= 0x02
	}
	if o.WillTopic != "" {
		fl |= 0x04 | byte(o.WillQos&3)<<3
		if o.WillRetain {
			fl |= 0x20
		}
	}
	if o.HasPass {
		fl |= 0x40
	}
	if o.HasUser {
		fl |= 0x80
	}
	body = append(body, fl)
	ka := make([]byte, 2)
	binary.BigEndian.PutUint16(ka, uint16(o.Keepalive))
	body = append(body, ka...)
	body = append(body, lp([]byte(o.ClientID))...)
	if o.WillTopic != "" {
		body = append(body, lp([]byte(o.WillTopic))...)
		body = append(body, lp([]byte(o.WillPayload))...)
	}
	if o.HasUser {
		body = append(body, lp([]byte(o.User))...)
	}
	if o.HasPass {
		body = append(body, lp([]byte(o.Pass))...)
	}
	return frame(tCONNECT, 0, body)
}

func pid2(pid int) []byte {
	b := make([]byte, 2)
	binary.BigEndian.PutUint16(b, uint16(pid))
	return b
}

func encPublish(topic string, payload []byte, qos int, retain, dup bool, pid int) []byte {
	body := lp([]byte(topic))
	if qos > 0 {
		body = append(body, pid2(pid)...)
	}
	body = append(body, payload...)
	var fl byte = byte(qos&3) << 1
	if retain {
		fl |= 1
	}
	if dup {
		fl |= 8
	}
	return frame(tPUBLISH, fl, body)
}

func encAck(typ int, pid int) []byte {
	var fl byte
	if typ == tPUBREL {
		fl = 2
	}
	return frame(typ, fl, pid2(pid))
}

func encSubscribe(pid int, filters []string, qos []int) []byte {
	body := pid2(pid)
	for i, f := range filters {
		body = append(body, lp([]byte(f))...)
		q := 0
		if i < len(qos) {
			q = qos[i]
		}
		body = append(body, byte(q))
	}
	return frame(tSUBSCRIBE, 2, body)
}

func encUnsubscribe(pid int, filters []string) []byte {
	body := pid2(pid)
	for _, f := range filters {
		body = append(body, lp([]byte(f))...)
	}
	return frame(tUNSUBSCRIBE, 2, body)
}

func encSimple(typ int) []byte { return frame(typ, 0, nil) }

// decodeOne parses one packet from the front of buf. ok=false means "need more bytes";
// err != nil means the broker sent something that is not MQTT.
func decodeOne(buf []byte) (p *mpkt, n int, ok bool, err error) {
	if len(buf) < 2 {
		return nil, 0, false, nil
	}
	typ := int(buf[0] >> 4)
	flags := buf[0] & 0x0f
	rem, mult, i := 0, 1, 1
	for {
		if i >= len(buf) {
			return nil, 0, false, nil
		}
		d := buf[i]
		rem += int(d&0x7f) * mult
		mult *= 128
		i++
		if d&0x80 == 0 {
			break
		}
		if i > 5 {
			return nil, 0, false, fmt.Errorf("malformed remaining length from broker")
		}
	}
	if len(buf) < i+rem {
		return nil, 0, false, nil
	}
	body := buf[i : i+rem]
	p = &mpkt{Type: typ, Flags: flags, Raw: i + rem}
	switch typ {
	case tCONNACK:
		if len(body) != 2 {
			return nil, 0, false, fmt.Errorf("CONNACK with %d body bytes", len(body))
		}
		p.RC = int(body[1])
	case tPUBLISH:
		p.Qos = int(flags>>1) & 3
		p.Dup = flags&8 != 0
		p.Retain = flags&1 != 0
		if len(body) < 2 {
			return nil, 0, false, fmt.Errorf("short PUBLISH from broker")
		}
		tl := int(binary.BigEndian.Uint16(body))
		if len(body) < 2+tl {
			return nil, 0, false, fmt.Errorf("short PUBLISH topic from broker")
		}
		p.Topic = string(body[2 : 2+tl])
		rest := body[2+tl:]
		if p.Qos > 0 {
			if len(rest) < 2 {
				return nil, 0, false, fmt.Errorf("PUBLISH qos>0 without packet id from broker")
			}
			p.Pid = int(binary.BigEndian.Uint16(rest))
			rest = rest[2:]
		}
		p.Payload = append([]byte(nil), rest...)
	case tPUBACK, tPUBREC, tPUBREL, tPUBCOMP, tUNSUBACK:
		if len(body) != 2 {
			return nil, 0, false, fmt.Errorf("%s with %d body bytes", typeNames[typ], len(body))
		}
		p.Pid = int(binary.BigEndian.Uint16(body))
	case tSUBACK:
		if len(body) < 2 {
			return nil, 0, false, fmt.Errorf("short SUBACK")
		}
		p.Pid = int(binary.BigEndian.Uint16(body))
		for _, g := range body[2:] {
			p.Granted = append(p.Granted, int(g))
		}
	case tPINGRESP:
	default:
		return nil, 0, false, fmt.Errorf("unexpected packet type %d from broker", typ)
	}
	return p, i + rem, true, nil
}

// refMatch is the reference MQTT 3.1.1 topic matcher: levels split on '/', empty levels kept,
// '+' = exactly one level, trailing '#' = parent level and everything below, '#' elsewhere
// matches nothing.
func refMatch(filter, topic string) bool {
	f := splitLevels(filter)
	t := splitLevels(topic)
	for i, fl := range f {
		if fl == "#" {
			return i == len(f)-1
		}
		if i >= len(t) {
			return false
		}
		if fl != "+" && fl != t[i] {
			return false
		}
	}
	return len(f) == len(t)
}

func splitLevels(s string) []string {
	var out []string
	start := 0
	for i := 0; i < len(s); i++ {
		if s[i] == '/' {
			out = append(out, s[start:i])
			start = i + 1
		}
	}
	return append(out, s[start:])
}
