package h

// E2 "repl": 2-4 replicas of the real distributed.State driven sequentially by one goroutine.
// Serves C08 (convergence under permutation/duplication/batching/clock offset),
// C09 (broadcast completeness) and C10 (full-state exchange).
//
// Step kinds (C = replica index unless noted):
//   screate  S=session T=client U=mount I=connectedAt L=[willTopic,willPayload]
//   sdelete  S=session
//   sdelpeer I=peer
//   ucreate  S=session T=pattern Q=qos
//   udelete  S=session T=pattern
//   udelsess S=session
//   udelpeer I=peer
//   tset     T=topic S=payload Q=qos
//   tdel     T=topic
//   gossip   C=from N=to            deliver every broadcast C has produced so far (and not yet given to N) to N
//   lose     C=from N=to            forget the undelivered broadcasts from C to N
//   deliver  C=receiver QL=update indexes (batched into one message) F=via MergeRemoteState
//   pushpull C=from N=to            N.MergeRemoteState(C.LocalState())
//   fresh    C=replica              replace replica C by a fresh one (C10: fresh B)

import (
	"fmt"
	"os"
	"sort"
	"strings"
	"testing"

	"github.com/golang/protobuf/proto"
	"github.com/hashicorp/memberlist"
	"github.com/vx-labs/mqtt-protocol/packet"
	"github.com/vx-labs/wasp/v4/wasp/api"
	"github.com/vx-labs/wasp/v4/wasp/audit"
	"github.com/vx-labs/wasp/v4/wasp/distributed"
)

type replica struct {
	peer  uint64
	st    distributed.State
	bcast *memberlist.TransmitLimitedQueue
	sent  [][]byte // every broadcast produced so far, in drain order
	given map[int]int
}

// replRecorder builds the audit recorder of the replicas of the current run: the default drops
// events; knob "recorder"=1 selects wasp's stdout recorder, whose session templates fail for
// identifiers shorter than 8 characters - a recorder that returns errors (as the gRPC one does
// while the audit service is away) must not change what is stored or broadcast.
var replRecorder = audit.NoneRecorder

func newReplica(peer uint64) *replica {
	q := &memberlist.TransmitLimitedQueue{RetransmitMult: 3, NumNodes: func() int { return 0 }}
	return &replica{peer: peer, bcast: q, st: distributed.NewState(peer, q, replRecorder()), given: map[int]int{}}
}

func (r *replica) drain() [][]byte {
	var out [][]byte
	for {
		b := r.bcast.GetBroadcasts(0, 1<<30)
		if len(b) == 0 {
			break
		}
		for _, m := range b {
			out = append(out, append([]byte(nil), m...))
		}
	}
	r.sent = append(r.sent, out...)
	return out
}

func peerID(i int) uint64 { return uint64(100 + i) }

// listing is the canonical visible state of a replica.
func listing(st distributed.State) []string {
	var out []string
	for _, s := range st.SessionMetadatas().All() {
		lt, lp := "", ""
		if s.LWT != nil {
			lt, lp = string(s.LWT.Topic), string(s.LWT.Payload)
		}
		out = append(out, fmt.Sprintf("S|%s|%s|%d|%s|%d|%s|%s", s.SessionID, s.ClientID, s.Peer, s.MountPoint, s.ConnectedAt, lt, lp))
	}
	for _, s := range st.Subscriptions().All() {
		out = append(out, fmt.Sprintf("U|%s|%s|%d|%d", s.Pattern, s.SessionID, s.Peer, s.QoS))
	}
	msgs, err := st.Topics().Get([]byte("#"))
	if err != nil {
		out = append(out, "R|error|"+err.Error())
	}
	for _, m := range msgs {
		q := int32(0)
		if m.Publish.Header != nil {
			q = m.Publish.Header.Qos
		}
		out = append(out, fmt.Sprintf("R|%s|%s|%d", m.Publish.Topic, m.Publish.Payload, q))
	}
	sort.Strings(out)
	return out
}

// ---- reference model: one LWW map per replica ------------------------------------------

type mEntry struct {
	rank    int64
	visible bool
	line    string // listing line when visible
	peer    uint64
	sess    string
}
type model map[string]mEntry

func (m model) lww(key string, e mEntry) {
	if cur, ok := m[key]; !ok || cur.rank < e.rank {
		m[key] = e
	}
}
func (m model) listing() []string {
	var out []string
	for _, e := range m {
		if e.visible {
			out = append(out, e.line)
		}
	}
	sort.Strings(out)
	return out
}
func (m model) merge(o model) {
	for k, e := range o {
		m.lww(k, e)
	}
}
func (m model) clone() model {
	n := model{}
	for k, e := range m {
		n[k] = e
	}
	return n
}

func diffLists(a, b []string) (onlyA, onlyB []string) {
	ma := map[string]int{}
	for _, x := range a {
		ma[x]++
	}
	for _, x := range b {
		if ma[x] > 0 {
			ma[x]--
		} else {
			onlyB = append(onlyB, x)
		}
	}
	for x, n := range ma {
		for i := 0; i < n; i++ {
			onlyA = append(onlyA, x)
		}
	}
	sort.Strings(onlyA)
	sort.Strings(onlyB)
	return
}

func kindsOf(lines []string) string {
	m := map[string]bool{}
	for _, l := range lines {
		if len(l) > 0 {
			m[l[:1]] = true
		}
	}
	var ks []string
	for k := range m {
		ks = append(ks, k)
	}
	sort.Strings(ks)
	return strings.Join(ks, "")
}

// ---- the world -------------------------------------------------------------------------

type replWorld struct {
	reps    []*replica
	models  []model
	cur     int   // replica whose clock is being read
	opRank  int64 // base stamp of the operation in progress
	opCalls int64
	skew    []int64
	opIndex int64
	updates [][]byte // C08: captured broadcasts
	noModel bool     // C08: origins only produce updates; their own state is not judged
}

func (w *replWorld) clock() int64 {
	w.opCalls++
	return w.opRank + w.opCalls
}

func (w *replWorld) beginOp(c int) int64 {
	w.cur = c
	w.opIndex++
	w.opRank = (1_000_000+(w.opIndex+w.skew[c])*8+int64(c))*4096 + 0
	w.opCalls = 0
	return w.opRank
}

func mount(topic string) string { return topic }

// applyOp executes a mutator on replica c for real and on its model. Returns false if the step is not an op.
func (w *replWorld) applyOp(s *Step) (bool, error) {
	c := s.C
	if c < 0 || c >= len(w.reps) {
		return true, nil
	}
	r := w.reps[c]
	m := w.models[c]
	if w.noModel {
		return w.applyRaw(s), nil
	}
	switch s.K {
	case "screate":
		rank := w.beginOp(c)
		var lwt *packet.Publish
		lt, lp := "", ""
		if len(s.L) == 2 && s.L[0] != "" {
			lt, lp = s.L[0], s.L[1]
			lwt = &packet.Publish{Header: &packet.Header{}, Topic: []byte(lt), Payload: []byte(lp)}
		}
		err := r.st.SessionMetadatas().Create(s.S, s.T, s.I, lwt, s.U)
		key := "S|" + s.S
		if cur, ok := m[key]; ok && cur.visible {
			if err == nil {
				return true, fmt.Errorf("Create of an existing live session %q returned no error", s.S)
			}
			return true, nil
		}
		if err != nil {
			return true, fmt.Errorf("Create(%q) failed: %v", s.S, err)
		}
		m[key] = mEntry{rank: rank, visible: true, peer: r.peer, sess: s.S,
			line: fmt.Sprintf("S|%s|%s|%d|%s|%d|%s|%s", s.S, s.T, r.peer, s.U, s.I, lt, lp)}
	case "sdelete":
		rank := w.beginOp(c)
		if err := r.st.SessionMetadatas().Delete(s.S); err != nil {
			return true, err
		}
		key := "S|" + s.S
		if cur, ok := m[key]; ok && cur.visible {
			cur.visible, cur.rank = false, rank
			m[key] = cur
		}
	case "sdelpeer":
		rank := w.beginOp(c)
		if err := r.st.SessionMetadatas().DeletePeer(uint64(s.I)); err != nil {
			return true, err
		}
		for k, e := range m {
			if strings.HasPrefix(k, "S|") && e.visible && e.peer == uint64(s.I) {
				e.visible, e.rank = false, rank
				m[k] = e
			}
		}
	case "ucreate":
		rank := w.beginOp(c)
		if err := r.st.Subscriptions().Create(s.S, []byte(s.T), int32(s.Q)); err != nil {
			return true, err
		}
		m["U|"+s.T+"|"+s.S] = mEntry{rank: rank, visible: true, peer: r.peer, sess: s.S,
			line: fmt.Sprintf("U|%s|%s|%d|%d", s.T, s.S, r.peer, s.Q)}
	case "udelete":
		rank := w.beginOp(c)
		if err := r.st.Subscriptions().Delete(s.S, []byte(s.T)); err != nil {
			return true, err
		}
		m["U|"+s.T+"|"+s.S] = mEntry{rank: rank, visible: false, peer: r.peer, sess: s.S}
	case "udelsess":
		rank := w.beginOp(c)
		r.st.Subscriptions().DeleteSession(s.S)
		for k, e := range m {
			if strings.HasPrefix(k, "U|") && e.visible && e.sess == s.S {
				e.visible, e.rank = false, rank
				m[k] = e
			}
		}
	case "udelpeer":
		rank := w.beginOp(c)
		r.st.Subscriptions().DeletePeer(uint64(s.I))
		for k, e := range m {
			if strings.HasPrefix(k, "U|") && e.visible && e.peer == uint64(s.I) {
				e.visible, e.rank = false, rank
				m[k] = e
			}
		}
	case "tset":
		rank := w.beginOp(c)
		p := &packet.Publish{Header: &packet.Header{Qos: int32(s.Q)}, Topic: []byte(s.T), Payload: []byte(s.S)}
		if err := r.st.Topics().Set(p); err != nil {
			return true, err
		}
		m["R|"+s.T] = mEntry{rank: rank, visible: true, line: fmt.Sprintf("R|%s|%s|%d", s.T, s.S, s.Q)}
	case "tdel":
		rank := w.beginOp(c)
		if err := r.st.Topics().Delete([]byte(s.T)); err != nil {
			return true, err
		}
		m["R|"+s.T] = mEntry{rank: rank, visible: false}
	default:
		return false, nil
	}
	return true, nil
}

// applyRaw runs a mutator without a model (C08 origins). Errors such as "already exists" are
// legitimate outcomes there and simply produce no update.
func (w *replWorld) applyRaw(s *Step) bool {
	r := w.reps[s.C]
	w.beginOp(s.C)
	switch s.K {
	case "screate":
		var lwt *packet.Publish
		if len(s.L) == 2 && s.L[0] != "" {
			lwt = &packet.Publish{Header: &packet.Header{}, Topic: []byte(s.L[0]), Payload: []byte(s.L[1])}
		}
		r.st.SessionMetadatas().Create(s.S, s.T, s.I, lwt, s.U)
	case "sdelete":
		r.st.SessionMetadatas().Delete(s.S)
	case "sdelpeer":
		r.st.SessionMetadatas().DeletePeer(uint64(s.I))
	case "ucreate":
		r.st.Subscriptions().Create(s.S, []byte(s.T), int32(s.Q))
	case "udelete":
		r.st.Subscriptions().Delete(s.S, []byte(s.T))
	case "udelsess":
		r.st.Subscriptions().DeleteSession(s.S)
	case "udelpeer":
		r.st.Subscriptions().DeletePeer(uint64(s.I))
	case "tset":
		r.st.Topics().Set(&packet.Publish{Header: &packet.Header{Qos: int32(s.Q)}, Topic: []byte(s.T), Payload: []byte(s.S)})
	case "tdel":
		r.st.Topics().Delete([]byte(s.T))
	default:
		return false
	}
	return true
}

func runRepl(t *testing.T, c *Case) *Outcome {
	o := newOutcome()
	if c.knob("recorder", 0) == 1 {
		// the stdout recorder writes (fragments of) its lines to os.Stdout: keep them out of the
		// worker's protocol stream
		if dn, err := os.OpenFile(os.DevNull, os.O_WRONLY, 0); err == nil {
			old := os.Stdout
			os.Stdout = dn
			replRecorder = audit.StdoutRecorder
			defer func() { os.Stdout = old; dn.Close(); replRecorder = audit.NoneRecorder }()
			o.probe("runs_with_failing_recorder")
		}
	}
	n := int(c.knob("replicas", 2))
	w := &replWorld{skew: make([]int64, n), noModel: c.Profile == "converge"}
	for i := 0; i < n; i++ {
		pid := peerID(i)
		if og := int(c.knob("origins", int64(n))); c.knob("owner_receivers", 0) == 1 && i >= og && og > 0 {
			// a receiver with the peer id of an origin: the owner of the records itself (restarted
			// with an empty state) is among the nodes that must converge
			pid = peerID((i - og) % og)
		}
		w.reps = append(w.reps, newReplica(pid))
		w.models = append(w.models, model{})
		w.skew[i] = c.knob(fmt.Sprintf("skew%d", i), 0)
	}
	restore := distributed.VerifSetClock(w.clock)
	defer restore()
	prop := c.Prop
	hist := []string{}
	logf := func(f string, a ...interface{}) { hist = append(hist, fmt.Sprintf(f, a...)) }
	defer func() {
		o.History = hist
		o.Digest = hashStrings(hist)
		o.Fingerprint = fingerprintSteps(c)
	}()

	pendingOps := 0
	origins := int(c.knob("origins", int64(n))) // C08: replicas [0,origins) produce, the rest only receive
	bulkMany, collide := 0, 0
	touched := map[string]int{}

	for si := range c.Steps {
		s := &c.Steps[si]
		before := []string(nil)
		if c.Profile == "bcast" {
			before = listing(w.reps[0].st)
		}
		isOp, err := w.applyOp(s)
		if err != nil {
			o.violate(prop, "local-op", si, 0, map[string]string{"op": s.K}, "step %d %s: %v", si, s.K, err)
			return o
		}
		if isOp {
			r := w.reps[s.C]
			var newMsgs [][]byte
			if c.Profile == "bcast" && s.C == 0 && c.knob("drain_every", 1) > 1 {
				// leave the broadcasts in the real queue until the batch is complete
				pendingOps++
				lastOp := true
				for _, later := range c.Steps[si+1:] {
					if later.C == 0 && later.K != "gossip" && later.K != "lose" && later.K != "pushpull" && later.K != "fresh" && later.K != "deliver" {
						lastOp = false
					}
				}
				logf("%d %s c=%d queued", si, s.K, s.C)
				if pendingOps < int(c.knob("drain_every", 1)) && !lastOp {
					continue
				}
				pendingOps = 0
				for _, mb := range r.drain() {
					w.reps[1].st.Distributor().NotifyMsg(mb)
				}
				after := listing(r.st)
				if a, b := diffLists(listing(w.reps[1].st), after); len(a)+len(b) > 0 {
					o.violate(prop, "receiver-differs", si, 0, map[string]string{"op": "batch", "kinds": kindsOf(append(a, b...))},
						"after a batch of changes was drained from the origin's queue into the receiver it lists %v that the origin does not, and lacks %v", a, b)
					return o
				}
				o.probe("batched_drains")
				continue
			}
			newMsgs = r.drain()
			logf("%d %s c=%d -> %d broadcasts %s", si, s.K, s.C, len(newMsgs), hashStrings(listing(r.st)))
			// local effect must match the model on every profile (sanity of both)
			if c.Profile != "converge" {
				got, want := listing(r.st), w.models[s.C].listing()
				if a, b := diffLists(got, want); len(a)+len(b) > 0 {
					o.violate(prop, "local-effect", si, 0, map[string]string{"op": s.K, "kinds": kindsOf(append(a, b...))},
						"after %s on replica %d the local listing differs from the reference: only real %v, only reference %v", s.K, s.C, a, b)
					return o
				}
			}
			if c.Profile == "converge" && s.C < origins {
				w.updates = append(w.updates, newMsgs...)
			}
			if c.Profile == "bcast" && s.C == 0 {
				// C09: broadcast keys must cover the keys whose visible state changed on A
				after := listing(r.st)
				goneA, newA := diffLists(before, after)
				changed := map[string]bool{}
				for _, l := range append(goneA, newA...) {
					changed[lineKey(l)] = true
				}
				if len(changed) >= 2 {
					bulkMany++
				}
				carried := map[string]bool{}
				for _, mb := range newMsgs {
					ev := &api.StateBroadcastEvent{}
					if err := proto.Unmarshal(mb, ev); err != nil {
						o.violate(prop, "broadcast-undecodable", si, 0, map[string]string{"op": s.K}, "broadcast of %s does not decode: %v", s.K, err)
						return o
					}
					for _, k := range eventKeys(ev) {
						carried[k] = true
					}
				}
				var missing []string
				for k := range changed {
					if !carried[k] {
						missing = append(missing, k)
					}
				}
				sort.Strings(missing)
				if len(missing) > 0 {
					o.violate(prop, "broadcast-incomplete", si, 0, map[string]string{"op": s.K, "kinds": kindsOf(missing)},
						"%s changed %d visible entries on A but its broadcast does not carry %v", s.K, len(changed), missing)
					return o
				}
				// deliver to B right away, in drain order
				for _, mb := range newMsgs {
					w.reps[1].st.Distributor().NotifyMsg(mb)
				}
				w.models[1].merge(w.models[0])
				gotB := listing(w.reps[1].st)
				if a, b := diffLists(gotB, after); len(a)+len(b) > 0 {
					o.violate(prop, "receiver-differs", si, 0, map[string]string{"op": s.K, "kinds": kindsOf(append(a, b...))},
						"after %s the receiver lists %v that the origin does not, and lacks %v", s.K, a, b)
					return o
				}
			}
			continue
		}
		switch s.K {
		case "gossip", "lose":
			from, to := s.C, s.N
			if from < 0 || from >= n || to < 0 || to >= n || from == to {
				continue
			}
			src := w.reps[from]
			start := src.given[to]
			if s.K == "gossip" {
				for _, mb := range src.sent[start:] {
					w.reps[to].st.Distributor().NotifyMsg(mb)
				}
				// model: everything from's model knew at this point that was produced by from's ops.
				// Because gossip may have been lost before, merge only what these messages carry.
				for _, mb := range src.sent[start:] {
					w.mergeMsgIntoModel(to, mb, from)
				}
				o.Stats["gossip.delivered"] += int64(len(src.sent) - start)
			} else {
				o.Stats["fault.gossip_lost"] += int64(len(src.sent) - start)
			}
			src.given[to] = len(src.sent)
			logf("%d %s %d->%d %s", si, s.K, from, to, hashStrings(listing(w.reps[to].st)))
		case "pushpull":
			from, to := s.C, s.N
			if from < 0 || from >= n || to < 0 || to >= n || from == to {
				continue
			}
			// memberlist passes join=true on both sides of a Join (also between long-lived nodes),
			// false in the periodic exchange: the content must not depend on it
			join := s.G
			snap := w.reps[from].st.Distributor().LocalState(join)
			w.reps[to].st.Distributor().MergeRemoteState(snap, join)
			w.models[to].merge(w.models[from])
			o.Stats["pushpull"]++
			got, want := listing(w.reps[to].st), w.models[to].listing()
			logf("%d pushpull %d->%d %s", si, from, to, hashStrings(got))
			if a, b := diffLists(got, want); len(a)+len(b) > 0 {
				o.violate(prop, "snapshot-merge", si, 0, map[string]string{"kinds": kindsOf(append(a, b...))},
					"after replica %d merged the full state of replica %d it lists %v beyond the reference and lacks %v", to, from, a, b)
				return o
			}
		case "fresh":
			if s.C >= 0 && s.C < n {
				w.reps[s.C] = newReplica(peerID(s.C))
				w.models[s.C] = model{}
				for _, r := range w.reps {
					r.given[s.C] = len(r.sent)
				}
				logf("%d fresh %d", si, s.C)
			}
		case "deliver":
			if s.C < origins || s.C >= n {
				continue
			}
			var buf []byte
			for _, ui := range s.QL {
				if ui >= 0 && ui < len(w.updates) {
					buf = append(buf, w.updates[ui]...)
					touched[fmt.Sprint(ui)]++
				}
			}
			if len(buf) == 0 {
				continue
			}
			if len(s.QL) > 1 {
				o.Stats["fault.batched"]++
			}
			if s.F {
				w.reps[s.C].st.Distributor().MergeRemoteState(buf, false)
			} else {
				w.reps[s.C].st.Distributor().NotifyMsg(buf)
			}
			logf("%d deliver c=%d %v %s", si, s.C, s.QL, hashStrings(listing(w.reps[s.C].st)))
		}
	}

	switch c.Profile {
	case "converge":
		// reference fold over the captured updates
		ref := model{}
		perKey := map[string]map[int64]bool{}
		for _, mb := range w.updates {
			ev := &api.StateBroadcastEvent{}
			if err := proto.Unmarshal(mb, ev); err != nil {
				continue
			}
			foldEvent(ref, ev, perKey)
		}
		ties := false
		for _, stamps := range perKey {
			if len(stamps) >= 2 {
				collide++
			}
		}
		_ = ties
		want := ref.listing()
		deliveredAll := func(ri int) bool {
			seen := map[int]bool{}
			for _, s := range c.Steps {
				if s.K == "deliver" && s.C == ri {
					for _, ui := range s.QL {
						seen[ui] = true
					}
				}
			}
			for ui := range w.updates {
				if !seen[ui] {
					return false
				}
			}
			return true
		}
		judged := 0
		for ri := origins; ri < n; ri++ {
			if !deliveredAll(ri) {
				continue // shrinking may have removed deliveries: that receiver has not received the set
			}
			judged++
			got := listing(w.reps[ri].st)
			if a, b := diffLists(got, want); len(a)+len(b) > 0 {
				o.violate(prop, "diverged-from-lww", len(c.Steps), 0, map[string]string{"kinds": kindsOf(append(a, b...))},
					"receiver %d, having received all %d updates, lists %v beyond the LWW fold and lacks %v", ri, len(w.updates), a, b)
				return o
			}
		}
		o.Stats["receivers_judged"] += int64(judged)
		o.Stats["keys_with_competing_updates"] += int64(collide)
		o.Nontrivial = judged >= 2 && collide >= 1
		o.StateHash = hashStrings(want)
	case "bcast":
		o.Stats["ops_changing_2plus_entries"] += int64(bulkMany)
		o.Nontrivial = len(c.Steps) >= 3
		o.StateHash = hashStrings(listing(w.reps[0].st))
	case "pushpull":
		// final clause: after both directions the listings are identical
		if c.knob("both", 0) == 1 && n >= 2 {
			a, b := listing(w.reps[0].st), listing(w.reps[1].st)
			if x, y := diffLists(a, b); len(x)+len(y) > 0 {
				o.violate(prop, "not-identical-after-exchange", len(c.Steps), 0, map[string]string{"kinds": kindsOf(append(x, y...))},
					"after snapshots were exchanged in both directions replica 0 lists %v that replica 1 does not, and lacks %v", x, y)
				return o
			}
		}
		o.Nontrivial = o.Stats["pushpull"] > 0 && len(c.Steps) >= 3
		o.StateHash = hashStrings(listing(w.reps[0].st))
	}
	return o
}

// mergeMsgIntoModel folds the entries a real broadcast carries into the model of replica `to`,
// taking ranks from the sender's model (the broadcast's own stamps are what is under test in C09,
// but for C10 the gossip phase only needs to say which keys travelled).
func (w *replWorld) mergeMsgIntoModel(to int, mb []byte, from int) {
	ev := &api.StateBroadcastEvent{}
	if proto.Unmarshal(mb, ev) != nil {
		return
	}
	for _, k := range eventKeys(ev) {
		// the sender's model entry at send time may have been superseded since; LWW makes the
		// later value at least as new, and the real message carries the older stamp. Use the
		// stamp in the message to stay exact.
		e, ok := entryFromEvent(ev, k)
		if ok {
			w.models[to].lww(k, e)
		}
	}
}

func lineKey(l string) string {
	f := strings.Split(l, "|")
	switch f[0] {
	case "S":
		return "S|" + f[1]
	case "U":
		return "U|" + f[1] + "|" + f[2]
	case "R":
		return "R|" + f[1]
	}
	return l
}

func eventKeys(ev *api.StateBroadcastEvent) []string {
	var ks []string
	for _, s := range ev.SessionMetadatas {
		ks = append(ks, "S|"+s.SessionID)
	}
	for _, s := range ev.Subscriptions {
		ks = append(ks, "U|"+string(s.Pattern)+"|"+s.SessionID)
	}
	for _, r := range ev.RetainedMessages {
		if r.Publish != nil {
			ks = append(ks, "R|"+string(r.Publish.Topic))
		}
	}
	return ks
}

func stampOf(added, deleted int64) (int64, bool) {
	if added > deleted {
		return added, added > 0
	}
	return deleted, false
}

// rankOfStamp maps a real stamp back to the op rank (stamps are rank + call counter < 4096).
func rankOfStamp(st int64) int64 { return st &^ 4095 }

func sessLine(s *api.SessionMetadatas) string {
	lt, lp := "", ""
	if s.LWT != nil {
		lt, lp = string(s.LWT.Topic), string(s.LWT.Payload)
	}
	return fmt.Sprintf("S|%s|%s|%d|%s|%d|%s|%s", s.SessionID, s.ClientID, s.Peer, s.MountPoint, s.ConnectedAt, lt, lp)
}

func entryFromEvent(ev *api.StateBroadcastEvent, key string) (mEntry, bool) {
	var best mEntry
	found := false
	take := func(e mEntry) {
		if !found || best.rank < e.rank {
			best, found = e, true
		}
	}
	for _, s := range ev.SessionMetadatas {
		if "S|"+s.SessionID == key {
			st, vis := stampOf(s.LastAdded, s.LastDeleted)
			take(mEntry{rank: rankOfStamp(st), visible: vis, peer: s.Peer, sess: s.SessionID, line: sessLine(s)})
		}
	}
	for _, s := range ev.Subscriptions {
		if "U|"+string(s.Pattern)+"|"+s.SessionID == key {
			st, vis := stampOf(s.LastAdded, s.LastDeleted)
			take(mEntry{rank: rankOfStamp(st), visible: vis, peer: s.Peer, sess: s.SessionID,
				line: fmt.Sprintf("U|%s|%s|%d|%d", s.Pattern, s.SessionID, s.Peer, s.QoS)})
		}
	}
	for _, r := range ev.RetainedMessages {
		if r.Publish != nil && "R|"+string(r.Publish.Topic) == key {
			st, vis := stampOf(r.LastAdded, r.LastDeleted)
			q := int32(0)
			if r.Publish.Header != nil {
				q = r.Publish.Header.Qos
			}
			take(mEntry{rank: rankOfStamp(st), visible: vis, line: fmt.Sprintf("R|%s|%s|%d", r.Publish.Topic, r.Publish.Payload, q)})
		}
	}
	return best, found
}

// foldEvent is the C08 reference: per key the update with the greatest stamp wins.
func foldEvent(ref model, ev *api.StateBroadcastEvent, perKey map[string]map[int64]bool) {
	note := func(k string, st int64) {
		if perKey[k] == nil {
			perKey[k] = map[int64]bool{}
		}
		perKey[k][st] = true
	}
	for _, s := range ev.SessionMetadatas {
		st, vis := stampOf(s.LastAdded, s.LastDeleted)
		k := "S|" + s.SessionID
		note(k, st)
		ref.lww(k, mEntry{rank: st, visible: vis, line: sessLine(s)})
	}
	for _, s := range ev.Subscriptions {
		st, vis := stampOf(s.LastAdded, s.LastDeleted)
		k := "U|" + string(s.Pattern) + "|" + s.SessionID
		note(k, st)
		ref.lww(k, mEntry{rank: st, visible: vis, line: fmt.Sprintf("U|%s|%s|%d|%d", s.Pattern, s.SessionID, s.Peer, s.QoS)})
	}
	for _, r := range ev.RetainedMessages {
		if r.Publish == nil {
			continue
		}
		st, vis := stampOf(r.LastAdded, r.LastDeleted)
		k := "R|" + string(r.Publish.Topic)
		note(k, st)
		q := int32(0)
		if r.Publish.Header != nil {
			q = r.Publish.Header.Qos
		}
		ref.lww(k, mEntry{rank: st, visible: vis, line: fmt.Sprintf("R|%s|%s|%d", r.Publish.Topic, r.Publish.Payload, q)})
	}
}

func fingerprintSteps(c *Case) string {
	var xs []string
	for _, s := range c.Steps {
		xs = append(xs, fmt.Sprintf("%s|%d|%d|%d|%d|%s|%s|%s|%v|%v|%v", s.K, s.C, s.N, s.I, s.Q, s.S, s.T, s.U, s.L, s.QL, s.F))
	}
	for k, v := range c.Knobs {
		xs = append(xs, fmt.Sprintf("%s=%d", k, v))
	}
	sort.Strings(xs[len(c.Steps):])
	return c.Profile + hashStrings(xs)
}

// ---- generators ------------------------------------------------------------------------

var replSessions = []string{"s1", "s2", "s3", "s4"}
var replPatterns = []string{"_default/a", "_default/a/b", "_default/a/+", "_default/a/#", "_default/b", "_default/+/b", "m2/a", "_default/a/b/c"}
var replTopics = []string{"_default/a", "_default/a/b", "_default/a/b/c", "_default/a/c", "_default/b", "m2/a"}

func genReplOp(r *Rand, c int, nPeers int) Step {
	switch r.Intn(12) {
	case 0, 1:
		st := Step{K: "screate", C: c, S: r.Pick(replSessions), T: "client-" + r.Pick([]string{"x", "y", "z"}), U: r.Pick([]string{"_default", "m2"}), I: int64(r.Range(1, 5))}
		if r.Bool(0.4) {
			st.L = []string{r.Pick([]string{"w/a", "w/b"}), "bye" + fmt.Sprint(r.Intn(3))}
		}
		return st
	case 2:
		return Step{K: "sdelete", C: c, S: r.Pick(replSessions)}
	case 3, 4, 5:
		return Step{K: "ucreate", C: c, S: r.Pick(replSessions), T: r.Pick(replPatterns), Q: r.Intn(3)}
	case 6:
		return Step{K: "udelete", C: c, S: r.Pick(replSessions), T: r.Pick(replPatterns)}
	case 7:
		return Step{K: "udelsess", C: c, S: r.Pick(replSessions)}
	case 8:
		return Step{K: "udelpeer", C: c, I: int64(peerID(r.Intn(nPeers)))}
	case 9:
		return Step{K: "sdelpeer", C: c, I: int64(peerID(r.Intn(nPeers)))}
	case 10:
		return Step{K: "tset", C: c, T: r.Pick(replTopics), S: "v" + fmt.Sprint(r.Intn(1000)), Q: r.Intn(3)}
	default:
		if r.Bool(0.5) {
			return Step{K: "tset", C: c, T: r.Pick(replTopics), S: "v" + fmt.Sprint(r.Intn(1000)), Q: r.Intn(3)}
		}
		return Step{K: "tdel", C: c, T: r.Pick(replTopics)}
	}
}

func genC08(r *Rand, tier, profile string) *Case {
	c := &Case{Profile: "converge", Knobs: map[string]int64{}}
	origins := r.Range(1, 3)
	receivers := r.Range(2, 3)
	c.Knobs["origins"] = int64(origins)
	if r.Bool(0.3) {
		c.Knobs["owner_receivers"] = 1
	}
	c.Knobs["replicas"] = int64(origins + receivers)
	for i := 0; i < origins; i++ {
		// clock offsets from a few ops to "hours" (in op units), either sign
		c.Knobs[fmt.Sprintf("skew%d", i)] = int64(r.PickInt([]int{0, 0, 1, -1, 3, -3, 50, -50, 100000, -100000}))
	}
	nOps := r.Range(2, 12)
	if tier == "thorough" {
		nOps = r.Range(2, 40)
	}
	for i := 0; i < nOps; i++ {
		oc := r.Intn(origins)
		c.Steps = append(c.Steps, genReplOp(r, oc, origins))
		if origins > 1 && r.Bool(0.3) {
			a := r.Intn(origins)
			b := (a + 1 + r.Intn(origins-1)) % origins
			c.Steps = append(c.Steps, Step{K: "gossip", C: a, N: b})
		}
	}
	// Upper bound of updates: bulk ops produce one broadcast each; every op produces at most 1.
	// The number of captured updates is only known at run time, so delivery plans address
	// indexes 0..nOps-1 and out-of-range indexes are ignored; every receiver gets each index
	// at least once.
	for ri := origins; ri < origins+receivers; ri++ {
		var plan []int
		for _, i := range r.Perm(nOps) {
			plan = append(plan, i)
			for r.Bool(0.25) { // duplicates
				plan = append(plan, r.Intn(nOps))
			}
		}
		for len(plan) > 0 {
			k := 1
			if r.Bool(0.35) {
				k = r.Range(2, 4)
			}
			if k > len(plan) {
				k = len(plan)
			}
			c.Steps = append(c.Steps, Step{K: "deliver", C: ri, QL: append([]int(nil), plan[:k]...), F: r.Bool(0.3)})
			plan = plan[k:]
		}
	}
	return c
}

func genC09(r *Rand, tier, profile string) *Case {
	c := &Case{Profile: "bcast", Knobs: map[string]int64{"replicas": 3}}
	if r.Bool(0.4) {
		c.Knobs["drain_every"] = int64(r.Range(2, 5)) // several changes inside one gossip interval
	}
	if r.Bool(0.25) {
		c.Knobs["recorder"] = 1 // an audit recorder that returns errors
	}
	// replica 2 is a foreign peer whose entries are first replicated to A (0) and B (1)
	nForeign := r.Intn(5)
	for i := 0; i < nForeign; i++ {
		st := genReplOp(r, 2, 3)
		if st.K == "udelpeer" || st.K == "sdelpeer" || st.K == "udelsess" {
			st = Step{K: "ucreate", C: 2, S: r.Pick(replSessions), T: r.Pick(replPatterns), Q: r.Intn(3)}
		}
		c.Steps = append(c.Steps, st)
	}
	if nForeign > 0 {
		c.Steps = append(c.Steps, Step{K: "gossip", C: 2, N: 0}, Step{K: "gossip", C: 2, N: 1})
	}
	nOps := r.Range(1, 10)
	if tier == "thorough" {
		nOps = r.Range(1, 30)
	}
	for i := 0; i < nOps; i++ {
		c.Steps = append(c.Steps, genReplOp(r, 0, 3))
	}
	return c
}

func genC10(r *Rand, tier, profile string) *Case {
	c := &Case{Profile: "pushpull", Knobs: map[string]int64{"replicas": 2}}
	nOps := r.Range(1, 12)
	if tier == "thorough" {
		nOps = r.Range(1, 40)
	}
	for i := 0; i < nOps; i++ {
		who := r.Intn(2)
		c.Steps = append(c.Steps, genReplOp(r, who, 2))
		if r.Bool(0.4) {
			k := "gossip"
			if r.Bool(0.5) {
				k = "lose"
			}
			c.Steps = append(c.Steps, Step{K: k, C: who, N: 1 - who})
		}
	}
	switch r.Intn(4) {
	case 0:
		c.Steps = append(c.Steps, Step{K: "pushpull", C: 0, N: 1})
	case 1:
		c.Steps = append(c.Steps, Step{K: "pushpull", C: 1, N: 0})
	case 2:
		c.Steps = append(c.Steps, Step{K: "fresh", C: 1}, Step{K: "pushpull", C: 0, N: 1})
	default:
		c.Steps = append(c.Steps, Step{K: "pushpull", C: 0, N: 1}, Step{K: "pushpull", C: 1, N: 0})
		c.Knobs["both"] = 1
	}
	if r.Bool(0.4) { // the exchange is that of a Join
		for i := range c.Steps {
			if c.Steps[i].K == "pushpull" {
				c.Steps[i].G = true
			}
		}
	}
	return c
}

func init() {
	realRepl := []string{"wasp/distributed (state, sessions, subscriptions, topics, broadcast)", "crdt", "subscriptions trie", "topics trie", "memberlist.TransmitLimitedQueue", "wasp/api protobuf codecs"}
	stubRepl := []string{"memberlist gossip transport (replaced by direct NotifyMsg/MergeRemoteState calls in simulator order)", "clock of the replicated state (VerifSetClock: per-operation ranks with per-node offsets)", "audit recorder (none-recorder)"}
	register(&Check{ID: "C08", Level: "exploration", Build: "maporder", Gen: genC08, Run: runRepl, QuickS: 12, ThoroughS: 240,
		Rule: "a case = mutator history on 1-3 origin replicas with offset clocks + one delivery plan (permutation, duplicates, batches, NotifyMsg or MergeRemoteState) per receiver; non-trivial when >=2 receivers got every update and >=1 key has competing updates; distinct by hash of (history, plans, offsets)",
		Real: realRepl, Stub: stubRepl,
		Assume: []string{"timestamps are unique across nodes (ties between different nodes are not generated)", "receivers are fresh replicas that only merge; origins' own local state is not judged here"}})
	register(&Check{ID: "C09", Level: "exploration", Build: "maporder", Gen: genC09, Run: runRepl, QuickS: 12, ThoroughS: 240,
		Rule: "a case = foreign-peer prefill replicated to A and B, then a history of session/subscription/retained mutators on A; after each op A's queue is drained into B; non-trivial when >=3 steps; distinct by hash of the history",
		Real: realRepl, Stub: stubRepl,
		Assume: []string{"one clock (A's), strictly increasing; no loss (fault-free twin of C08/C10)"}})
	register(&Check{ID: "C10", Level: "exploration", Build: "maporder", Gen: genC10, Run: runRepl, QuickS: 12, ThoroughS: 240,
		Rule: "a case = interleaved histories on A and B, each gossip batch delivered or lost, then snapshot A->B, B->A, fresh-B or both; non-trivial when >=1 snapshot merge and >=3 steps; distinct by hash of the history",
		Real: realRepl, Stub: stubRepl,
		Assume: []string{"clocks of A and B are synchronised and strictly increasing (skew is C08's subject)"}})
}
