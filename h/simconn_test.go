package h

import (
	"errors"
	"io"
	"sync"
	"sync/atomic"
	"time"
)

// simConn is the broker's view of a client connection (transport.TimeoutReadWriteCloser).
// The driver never blocks on it: it feeds bytes, cuts the link and collects what the broker
// wrote. Reads block on a channel created inside the bubble (durably blocking for synctest)
// and honour deadlines on the fake clock.
type simConn struct {
	mu            sync.Mutex
	in            []byte
	inEOF         bool // client closed its side: Read returns io.EOF once drained
	reset         bool // link cut: Read and Write fail
	closed        bool // broker called Close
	closedAt      int64
	rdl           time.Time
	wdl           time.Time
	out           []outChunk
	wake          chan struct{}
	stamp         *int64
	start         time.Time
	notify        chan struct{} // driver wake-up: the broker wrote or closed
	skew          time.Duration
	failNextWrite bool
	stalled       bool // the peer does not read: writes block until it does (or the write deadline passes)
	waiters       []*stallWaiter
	resetAt       int64 // when the link went down because a write failed (-1: not that way)
	// counters for oracles
	writesAfterClose int
	bytesOut         int64
	readTimeouts     int
}

type outChunk struct {
	b     []byte
	stamp int64
	atMs  int64
}

type timeoutErr struct{}

func (timeoutErr) Error() string   { return "i/o timeout" }
func (timeoutErr) Timeout() bool   { return true }
func (timeoutErr) Temporary() bool { return true }

var errReset = errors.New("connection reset by peer")
var errClosed = errors.New("use of closed network connection")

var simConnSeq int64

func newSimConn(stamp *int64, start time.Time, notify chan struct{}) *simConn {
	n := atomic.AddInt64(&simConnSeq, 1)
	return &simConn{wake: make(chan struct{}, 1), stamp: stamp, start: start, notify: notify, skew: time.Duration(50+n%200) * time.Microsecond, resetAt: -1}
}

func (c *simConn) tell() {
	select {
	case c.notify <- struct{}{}:
	default:
	}
}

func (c *simConn) poke() {
	select {
	case c.wake <- struct{}{}:
	default:
	}
}

func (c *simConn) Read(p []byte) (int, error) {
	for {
		c.mu.Lock()
		if c.closed {
			c.mu.Unlock()
			return 0, errClosed
		}
		if len(c.in) > 0 {
			n := copy(p, c.in)
			c.in = c.in[n:]
			c.mu.Unlock()
			return n, nil
		}
		if c.reset {
			c.mu.Unlock()
			return 0, errReset
		}
		if c.inEOF {
			c.mu.Unlock()
			return 0, io.EOF
		}
		dl := c.rdl
		c.mu.Unlock()
		if dl.IsZero() {
			<-c.wake
			continue
		}
		d := time.Until(dl)
		if d <= 0 {
			c.mu.Lock()
			c.readTimeouts++
			c.mu.Unlock()
			return 0, timeoutErr{}
		}
		tm := time.NewTimer(d)
		select {
		case <-c.wake:
			tm.Stop()
		case <-tm.C:
		}
	}
}

func (c *simConn) Write(p []byte) (int, error) {
	c.mu.Lock()
	defer c.mu.Unlock()
	if c.closed {
		c.writesAfterClose++
		return 0, errClosed
	}
	if c.reset {
		return 0, errReset
	}
	if c.failNextWrite {
		// the link dies under this write: nothing reaches the client, reads fail from now on
		c.failNextWrite = false
		c.reset = true
		c.resetAt = time.Since(c.start).Milliseconds()
		select {
		case c.wake <- struct{}{}:
		default:
		}
		return 0, errReset
	}
	var me *stallWaiter
	if c.stalled && !c.closed && !c.reset {
		// a full send buffer: the writer waits (a durable block inside the bubble). Writers blocked
		// on one connection are served strictly in the order in which they arrived once the peer
		// reads again: each hands over to the next and waits until that one is through.
		me = &stallWaiter{start: make(chan struct{}), done: make(chan struct{})}
		c.waiters = append(c.waiters, me)
		wdl := c.wdl
		c.mu.Unlock()
		timedOut := false
		if !wdl.IsZero() {
			d := time.Until(wdl)
			if d <= 0 {
				timedOut = true
			} else {
				t := time.NewTimer(d)
				select {
				case <-me.start:
					t.Stop()
				case <-t.C:
					timedOut = true
				}
			}
		} else {
			<-me.start
		}
		c.mu.Lock()
		if timedOut {
			select {
			case <-me.start: // released at the very same instant: go on
			default:
				for i, x := range c.waiters {
					if x == me {
						c.waiters = append(c.waiters[:i], c.waiters[i+1:]...)
					}
				}
				close(me.done)
				return 0, timeoutErr{}
			}
		}
		defer func() {
			// hand over to the next blocked writer and let it finish before this Write returns
			var next *stallWaiter
			for i, x := range c.waiters {
				if x == me {
					c.waiters = append(c.waiters[:i], c.waiters[i+1:]...)
					break
				}
			}
			if len(c.waiters) > 0 && !c.stalled {
				next = c.waiters[0]
			}
			close(me.done)
			if next != nil {
				close(next.start)
				c.mu.Unlock()
				<-next.done
				c.mu.Lock()
			}
		}()
	}
	if c.closed {
		return 0, errClosed
	}
	if c.reset {
		return 0, errReset
	}
	if !c.wdl.IsZero() && !time.Now().Before(c.wdl) {
		return 0, timeoutErr{}
	}
	if c.inEOF {
		// peer has closed: the bytes go nowhere (a real TCP stack would accept the first write)
		return len(p), nil
	}
	c.out = append(c.out, outChunk{b: append([]byte(nil), p...), stamp: atomic.AddInt64(c.stamp, 1), atMs: time.Since(c.start).Milliseconds()})
	c.bytesOut += int64(len(p))
	c.tell()
	return len(p), nil
}

func (c *simConn) Close() error {
	c.mu.Lock()
	if !c.closed {
		c.closed = true
		c.closedAt = time.Since(c.start).Milliseconds()
	}
	c.releaseLocked()
	c.mu.Unlock()
	c.poke()
	c.tell()
	return nil
}

// skewed: deadlines of simulated connections fire a few microseconds late, a different amount
// per connection, so that a deadline set at a broker tick plus a whole number of seconds does
// not fall on the very instant of a later tick (or of another connection's deadline): which of
// two timers due at one instant runs first is the Go runtime's choice, not the simulator's.
func (c *simConn) skewed(t time.Time) time.Time {
	if t.IsZero() {
		return t
	}
	return t.Add(c.skew)
}

func (c *simConn) SetDeadline(t time.Time) error {
	t = c.skewed(t)
	c.mu.Lock()
	c.rdl, c.wdl = t, t
	c.mu.Unlock()
	c.poke()
	return nil
}
func (c *simConn) SetReadDeadline(t time.Time) error {
	t = c.skewed(t)
	c.mu.Lock()
	c.rdl = t
	c.mu.Unlock()
	c.poke()
	return nil
}
func (c *simConn) SetWriteDeadline(t time.Time) error {
	c.mu.Lock()
	c.wdl = t
	c.mu.Unlock()
	return nil
}

// ---- driver side -----------------------------------------------------------------------

func (c *simConn) feed(b []byte) {
	c.mu.Lock()
	c.in = append(c.in, b...)
	c.mu.Unlock()
	c.poke()
}
func (c *simConn) clientClose() {
	c.mu.Lock()
	c.inEOF = true
	c.mu.Unlock()
	c.poke()
}
func (c *simConn) cut() {
	c.mu.Lock()
	c.reset = true
	c.releaseLocked()
	c.mu.Unlock()
	c.poke()
}
func (c *simConn) take() []outChunk {
	c.mu.Lock()
	defer c.mu.Unlock()
	o := c.out
	c.out = nil
	return o
}
func (c *simConn) brokerClosed() (bool, int64) {
	c.mu.Lock()
	defer c.mu.Unlock()
	return c.closed, c.closedAt
}
func (c *simConn) linkDown() bool {
	c.mu.Lock()
	defer c.mu.Unlock()
	return c.reset || c.inEOF
}

// stall: the peer stops reading until release() (slow or stalled node).
type stallWaiter struct{ start, done chan struct{} }

func (c *simConn) stall() {
	c.mu.Lock()
	c.stalled = true
	c.mu.Unlock()
}

// releaseLocked lets the first blocked writer go (it passes the turn on). Caller holds c.mu.
func (c *simConn) releaseLocked() {
	if c.stalled {
		c.stalled = false
		if len(c.waiters) > 0 {
			close(c.waiters[0].start)
		}
	}
}

func (c *simConn) release() {
	c.mu.Lock()
	c.releaseLocked()
	c.mu.Unlock()
}

func (c *simConn) armWriteFailure() {
	c.mu.Lock()
	c.failNextWrite = true
	c.mu.Unlock()
}
func (c *simConn) writeFailedAt() int64 {
	c.mu.Lock()
	defer c.mu.Unlock()
	return c.resetAt
}
