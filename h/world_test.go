package h

// E1: whole wasp brokers inside one testing/synctest bubble.
//
// Step kinds (At = gap in ms before the step, relative to the end of the previous one):
//   connect    C=client N=node S=clientID U=user T=password I=keepalive L=[willTopic,willPayload] Q=willQos F=willRetain
//   sub        C L=filters QL=qos I=pid
//   unsub      C L=filters I=pid
//   pub        C T=topic S=payload Q=qos F=retain G=dup I=pid J=pad bytes
//   pkt        C S=puback|pubrec|pubrel|pubcomp|pingreq|disconnect|connect I=pid
//   cut        C                      link reset
//   close      C                      client closes its side (EOF)
//   raw        C B=bytes              arbitrary bytes (J>0: fragment size)
//   ackplan    C L=behaviours         per received PUBLISH: ack | silentK | wrongtype | wrongid | never
//   sleep      I=ms
//   settle                            faults stop, gossip drains, push-pull between all pairs, listings must agree
//   pushpull   N=a I=b                a pushes its state to b and pulls b's
//   partition  N=a I=b / heal
//   stopnode   N                      node dies; survivors are notified after PRNG delays (J>0: fixed delay ms)
//   restartnode N I=downtime ms G     the node's process dies and is started again from its data directory (same node id,
//                                     message log and consumer offset survive, sessions and replicated state do not);
//                                     G: it is back before the failure detector of any peer noticed (no leave notification)
//   rpcmode    N=src I=dst S=ok|fail|blackhole|lossresp
//   appendfail N=node I=count         the next I appends on that node's log fail
//   stall      C I=ms                    the client stops reading for that long (broker writes to it block)
// knobs: nodes, gossip_drop_pct, gossip_dup_pct, gossip_maxdelay_ms, maporder (0 sorted, else permutation seed),
//        prefill (entries appended to node 0's log before start), auth (0 static,1 file,2 stub)

import (
	"context"
	"errors"
	"fmt"
	"math/rand"
	"net"
	"os"
	"path/filepath"
	"reflect"
	"runtime"
	"sort"
	"strings"
	"sync"
	"sync/atomic"
	"testing"
	"testing/synctest"
	"time"

	"container/heap"

	"github.com/golang/protobuf/proto"
	"github.com/google/uuid"
	"github.com/hashicorp/memberlist"
	"github.com/vx-labs/cluster/membership"
	"github.com/vx-labs/commitlog/stream"
	"github.com/vx-labs/mqtt-protocol/packet"
	"github.com/vx-labs/wasp/v4/verifrt"
	"github.com/vx-labs/wasp/v4/wasp"
	"github.com/vx-labs/wasp/v4/wasp/ack"
	"github.com/vx-labs/wasp/v4/wasp/api"
	"github.com/vx-labs/wasp/v4/wasp/audit"
	"github.com/vx-labs/wasp/v4/wasp/auth"
	"github.com/vx-labs/wasp/v4/wasp/distributed"
	"github.com/vx-labs/wasp/v4/wasp/messages"
	"github.com/vx-labs/wasp/v4/wasp/transport"
	"go.uber.org/zap"
	"google.golang.org/grpc"
	"google.golang.org/grpc/codes"
	"google.golang.org/grpc/status"
)

// ---------------------------------------------------------------------------------------
// log decorator

type appendRec struct {
	Node    int
	Stamp   int64
	AtMs    int64
	Step    int
	Topic   string
	Tag     string
	Err     bool
	Forced  bool
	Payload int
	AtUs    int64
}

type logDeco struct {
	w        *world
	node     int
	inner    messages.Log
	mu       sync.Mutex
	failNext int
}

func (l *logDeco) Close() error { return l.inner.Close() }
func (l *logDeco) Append(p *packet.Publish) error {
	l.mu.Lock()
	forced := false
	if l.failNext > 0 {
		l.failNext--
		forced = true
	}
	l.mu.Unlock()
	var err error
	if forced {
		err = errors.New("simulated append failure: no space left on device")
		l.w.statAdd("fault.append_error", 1)
	} else {
		err = l.inner.Append(p)
	}
	rec := appendRec{Node: l.node, Stamp: atomic.AddInt64(&l.w.stamp, 1), AtMs: l.w.nowMs(), Step: l.w.curStep, Topic: string(p.Topic), Tag: tagOf(p.Payload), Err: err != nil, Forced: forced, Payload: len(p.Payload), AtUs: time.Since(l.w.start).Microseconds()}
	l.w.mu.Lock()
	l.w.appends = append(l.w.appends, rec)
	l.w.mu.Unlock()
	return err
}
func (l *logDeco) Get(offset uint64) (*packet.Publish, error) { return l.inner.Get(offset) }
func (l *logDeco) Consume(ctx context.Context, name string, f func(uint64, *packet.Publish) error) error {
	return l.inner.Consume(ctx, name, f)
}
func (l *logDeco) Stream(ctx context.Context, consumer stream.Consumer, f func(*packet.Publish) error) error {
	return l.inner.Stream(ctx, consumer, f)
}

// tagOf extracts the unique tag of a payload: everything up to the first '|'.
func tagOf(p []byte) string {
	for i, b := range p {
		if b == '|' {
			return string(p[:i])
		}
	}
	return string(p)
}

type tapRecorder struct{ w *world }

func (t *tapRecorder) Run(ctx context.Context) { <-ctx.Done() }
func (t *tapRecorder) Dispatch(ctx context.Context, sender string, p *packet.Publish) error {
	t.w.mu.Lock()
	t.w.goTag[goid()] = tagOf(p.Payload)
	if _, ok := t.w.dispatchStamp[tagOf(p.Payload)]; !ok {
		// the publish worker is about to resolve the destinations of this message
		t.w.dispatchStamp[tagOf(p.Payload)] = atomic.AddInt64(&t.w.stamp, 1)
	}
	t.w.mu.Unlock()
	return nil
}

func goid() int64 {
	var buf [64]byte
	n := runtime.Stack(buf[:], false)
	// "goroutine 123 ["
	var id int64
	for _, c := range buf[10:n] {
		if c < '0' || c > '9' {
			break
		}
		id = id*10 + int64(c-'0')
	}
	return id
}

// ---------------------------------------------------------------------------------------
// nodes

type simNode struct {
	idx         int
	id          uint64
	ctx         context.Context
	cancel      context.CancelFunc
	dir         string
	bcast       *memberlist.TransmitLimitedQueue
	local       wasp.LocalState
	dstate      distributed.State
	log         *logDeco
	distributor *wasp.PublishDistributor
	members     wasp.NodeMemberManager
	rpcsrv      wasp.RPCServer
	writer      wasp.Writer
	cm          wasp.Manager
	alive       bool
	known       map[int]bool // peers in this node's RPC pool
	tickPending bool
	phase       int64
}

type rpcRec struct {
	Src, Dst int
	Stamp    int64
	AtMs     int64
	Tag      string
	Outcome  string
}

type rpcTransport struct {
	w   *world
	src int
}

func (r *rpcTransport) Call(id uint64, f func(*grpc.ClientConn) error) error {
	w := r.w
	dst := -1
	for i, n := range w.nodes {
		if n.id == id {
			dst = i
		}
	}
	if dst == r.src {
		return errors.New("attempted to contact to local node")
	}
	w.mu.Lock()
	known := dst >= 0 && w.nodes[r.src].known[dst]
	w.mu.Unlock()
	w.mu.Lock()
	disabled := w.rpcMode[[2]int{r.src, dst}] == "disabled"
	w.mu.Unlock()
	if known && disabled {
		// the cluster pool has the peer but its health check marked it unusable: Call returns an
		// error without ever invoking the callback
		w.statAdd("fault.rpc_peer_disabled", 1)
		w.mu.Lock()
		tag := w.goTag[goid()]
		w.rpcs = append(w.rpcs, rpcRec{Src: r.src, Dst: dst, Stamp: atomic.AddInt64(&w.stamp, 1), AtMs: w.nowMs(), Tag: tag, Outcome: "disabled"})
		w.disabledCalls = append(w.disabledCalls, rpcRec{Src: r.src, Dst: dst, AtMs: w.nowMs(), Tag: tag})
		w.mu.Unlock()
		return membership.ErrPeerDisabled // the real pool's own error value
	}
	if !known {
		w.statAdd("rpc.peer_not_found", 1)
		w.mu.Lock()
		w.rpcs = append(w.rpcs, rpcRec{Src: r.src, Dst: dst, Stamp: atomic.AddInt64(&w.stamp, 1), AtMs: w.nowMs(), Outcome: "peer-not-found"})
		w.mu.Unlock()
		return membership.ErrPeerNotFound
	}
	return f(w.conns[[2]int{r.src, dst}])
}

// ---------------------------------------------------------------------------------------
// clients and observations

type Obs struct {
	Step   int
	AtMs   int64
	Stamp  int64
	Client int
	Epoch  int
	Rx     bool
	Auto   bool // sent by the scripted client's reaction logic, not by a scenario step
	P      *mpkt
}

type rxExchange struct {
	pid     int
	qos     int
	tag     string
	state   int // 0 open (PUBLISH seen), 1 PUBREC sent (qos2), 2 done
	plan    string
	seen    int // transmissions of the awaited packet
	firstAt int64
	lastAt  int64
	doneAt  int64
	gaps    []int64
	relSeen int
	relLast int64
	topic   string
	payload string
}

type simClient struct {
	idx         int
	epoch       int
	conn        *simConn
	node        int
	opts        connectOpts
	mount       string
	rx          []byte
	connack     *mpkt
	connackAt   int64
	connectAt   int64
	sawClose    bool
	closeAt     int64
	downAt      int64 // when the client side cut/closed (-1 if not)
	disconnAt   int64
	plan        []string
	planNext    int
	open        map[int]*rxExchange // by pid, exchanges not yet completed by the client
	exch        []*rxExchange
	garbage     string
	pingsSent   int
	pingResp    int
	lastTxAt    int64
	sid         string
	writeFailed bool
}

// recvRec: what a node emitted (its own local updates, src "emit") or was handed (gossip,
// push-pull), decoded from the real bytes. Per-node knowledge = LWW fold over these.
type kEntry struct {
	Key   string // R|topic, U|pattern|session, S|session
	Stamp int64
	Live  bool
	Val   string
}
type recvRec struct {
	Ord     int64
	AtMs    int64
	Node    int
	Src     string
	Entries []kEntry
}

func decodeEntries(b []byte) []kEntry {
	ev := &api.StateBroadcastEvent{}
	if proto.Unmarshal(b, ev) != nil {
		return nil
	}
	var out []kEntry
	for _, r := range ev.RetainedMessages {
		if r.Publish == nil {
			continue
		}
		st, live := stampOf(r.LastAdded, r.LastDeleted)
		out = append(out, kEntry{Key: "R|" + string(r.Publish.Topic), Stamp: st, Live: live, Val: string(r.Publish.Payload)})
	}
	for _, u := range ev.Subscriptions {
		st, live := stampOf(u.LastAdded, u.LastDeleted)
		out = append(out, kEntry{Key: "U|" + string(u.Pattern) + "|" + u.SessionID, Stamp: st, Live: live, Val: fmt.Sprintf("%d|%d", u.Peer, u.QoS)})
	}
	for _, m := range ev.SessionMetadatas {
		st, live := stampOf(m.LastAdded, m.LastDeleted)
		out = append(out, kEntry{Key: "S|" + m.SessionID, Stamp: st, Live: live, Val: fmt.Sprintf("%s|%d|%s", m.ClientID, m.Peer, m.MountPoint)})
	}
	return out
}

func (w *world) noteRecv(node int, src string, payloads ...[]byte) {
	var es []kEntry
	for _, b := range payloads {
		es = append(es, decodeEntries(b)...)
	}
	if len(es) > 0 {
		w.recv = append(w.recv, recvRec{Ord: w.evOrd, AtMs: w.nowMs(), Node: node, Src: src, Entries: es})
	}
}

// ---------------------------------------------------------------------------------------
// events

type event struct {
	deferred bool
	at       int64
	seq      uint64
	kind     string
	i, j     int
	data     [][]byte
	pkt      []byte
	step     int
	inc      int // gossipdeliver: incarnation of the sending node's process when the datagram left
}
type evHeap []*event

func (h evHeap) Len() int { return len(h) }
func (h evHeap) Less(a, b int) bool {
	if h[a].at != h[b].at {
		return h[a].at < h[b].at
	}
	return h[a].seq < h[b].seq
}
func (h evHeap) Swap(a, b int)       { h[a], h[b] = h[b], h[a] }
func (h *evHeap) Push(x interface{}) { *h = append(*h, x.(*event)) }
func (h *evHeap) Pop() interface{} {
	o := *h
	e := o[len(o)-1]
	*h = o[:len(o)-1]
	return e
}

// ---------------------------------------------------------------------------------------
// world

type world struct {
	t                  *testing.T
	c                  *Case
	o                  *Outcome
	start              time.Time
	nodes              []*simNode
	clients            map[int]*simClient
	past               []*simClient // earlier epochs of reconnecting clients
	conns              map[[2]int]*grpc.ClientConn
	events             evHeap
	seq                uint64
	mu                 sync.Mutex
	obs                []Obs
	appends            []appendRec
	rpcs               []rpcRec
	stamp              int64
	blocked            map[[2]int]bool
	rpcMode            map[[2]int]string
	rpcN               map[[2]int]int
	gossipN            map[[2]int]int
	gsplitN            map[int]int
	rpcTagN            map[string]int
	preListings        map[int][]string
	lossAtSettle       int64        // datagrams lost up to the last anti-entropy round (which repaired them)
	heldIDs            map[int]bool // identifiers the harness took out of node 0's writer pool (C06)
	curStep            int
	hist               []string
	orderH             []string
	stateH             []string
	seed               uint64
	stats              map[string]int64
	clock              int64
	authTab            []authRow
	dataDir            string
	settles            []settleRec
	faultsActive       bool
	inSettle           bool
	stepAt             []int64 // sim time at which each scenario step was applied
	stepEnd            []int64
	loadErr            string
	notify             chan struct{}
	forcedDelay        map[int]int64
	appLogged          int
	rpcStarted         []rpcRec
	disabledCalls      []rpcRec
	goTag              map[int64]string
	viewAt             map[int][]string // publish step -> listing of the publisher's node at that instant
	pingKnow           map[int64]pingKnowledge
	evOrd              int64                   // ordinal of the event being applied
	stepOrd            []int64                 // ordinal at which each scenario step was applied
	recv               []recvRec               // every replicated-state update a node emitted or was given
	knownAtStop        map[int]map[string]bool // survivor -> session ids it listed when a node was stopped
	stopAt             map[int]int64
	rpcLogged          int
	leaveAt            map[[2]int]int64 // (observer, dead) -> time the observer was told
	lateGossip         map[[2]int]bool  // (observer, dead): a datagram sent by dead reached observer after that
	authh              wasp.AuthenticationHandler
	restartAt          map[int]int64    // node -> time its process came up again (same id, same data directory)
	restartQuiet       map[int]bool     // node -> its peers never noticed that it was gone
	incarn             map[int]int      // node -> number of times its process has been started again
	dispatchStamp      map[string]int64 // payload tag -> stamp at which a publish worker took the message up
	retainedUnrecorded []string
	toldEver           map[[2]int]bool
}

type settleRec struct {
	Step     int
	AtMs     int64
	Listings map[int][]string
	// Pre: the listings before this settle's anti-entropy exchanges, nil unless every broadcast of
	// the run so far has been delivered (no loss, partition, node stop or earlier exchange)
	Pre map[int][]string
	// Registry: node -> ids of the sessions in its local registry at the instant of the listings
	Registry map[int]map[string]bool
}

type authRow struct{ user, pass, mount string }

func (w *world) nowMs() int64 { return time.Since(w.start).Milliseconds() }
func (w *world) statAdd(name string, n int64) {
	w.mu.Lock()
	w.stats[name] += n
	w.mu.Unlock()
}
func (w *world) logf(f string, a ...interface{}) {
	w.hist = append(w.hist, fmt.Sprintf("%d@%d ", w.curStep, w.nowMs())+fmt.Sprintf(f, a...))
}
func (w *world) push(e *event) {
	w.seq++
	e.seq = w.seq
	heap.Push(&w.events, e)
}
func (w *world) keyed(labels ...interface{}) *Rand { return NewRand(mix(w.seed, labels...)) }

func nodeID(i int) uint64 { return uint64(0xA0 + i) }

type stubAuth struct{ w *world }

func (s *stubAuth) Authenticate(ctx context.Context, m auth.ApplicationContext, tr auth.TransportContext) (auth.Principal, error) {
	for _, r := range s.w.authTab {
		if r.user == string(m.Username) && r.pass == string(m.Password) {
			id := uuid.New().String()
			if s.w.c.knob("devids", 0) == 1 {
				// a provider that names sessions after devices
				switch string(m.ClientID) {
				case "p0":
					id = "dev1"
				case "p1":
					id = "dev12"
				}
			}
			return auth.Principal{ID: id, MountPoint: r.mount}, nil
		}
	}
	return auth.Principal{}, errors.New("authentication failed")
}

func (w *world) newNode(i int) *simNode {
	n := &simNode{idx: i, id: nodeID(i), alive: true, known: map[int]bool{}}
	n.ctx, n.cancel = context.WithCancel(wasp.StoreLogger(context.Background(), zap.NewNop()))
	n.dir = filepath.Join(w.dataDir, fmt.Sprintf("n%d", i))
	os.MkdirAll(n.dir, 0755)
	n.phase = int64(w.keyed("phase", i).Intn(200))
	n.bcast = &memberlist.TransmitLimitedQueue{RetransmitMult: 3, NumNodes: func() int {
		c := 0
		for _, x := range w.nodes {
			if x.alive {
				c++
			}
		}
		if c < 1 {
			c = 1
		}
		return c
	}}
	n.local = wasp.NewState(n.id)
	n.dstate = distributed.NewState(n.id, n.bcast, audit.NoneRecorder())
	inner, err := messages.New(filepath.Join(n.dir, "published-messages"))
	if err != nil {
		panic(fmt.Sprintf("harness: cannot open message log: %v", err))
	}
	n.log = &logDeco{w: w, node: i, inner: inner}
	return n
}

func (w *world) startNode(n *simNode, authh wasp.AuthenticationHandler) {
	n.distributor = &wasp.PublishDistributor{ID: n.id, State: n.dstate.Subscriptions(), Storage: n.log, Logger: zap.NewNop(), Transport: &rpcTransport{w: w, src: n.idx}}
	n.members = wasp.NewNodeMemberManager(n.id, n.log, n.dstate)
	n.rpcsrv = wasp.NewMQTTServer(n.dstate, n.local, n.log, n.distributor, nil)
	inflights := ack.NewQueue()
	wr := wasp.NewWriter(n.id, n.dstate.Subscriptions(), n.local, inflights)
	n.writer = wr
	// the broker's components do not start at one instant: the log poller's 100 ms grid (on which
	// the writer's 100 ms identifier retries land too) and the writer's 1 s expiry ticker get
	// different anchors, so that two broker-internal timers never fall due at exactly the same time
	go wasp.SchedulePublishes(n.id, wr, n.log)(n.ctx)
	time.Sleep(131 * time.Microsecond)
	go wr.Run(n.ctx, n.log)
	time.Sleep(59 * time.Microsecond)
	// the taps dispatcher is called synchronously by the publish worker right before it
	// distributes a message: the simulator uses it to know which publish a worker goroutine is
	// handling (a call refused by the cluster pool never reaches a callback that could tell)
	tapsRunner := &tapRecorder{w: w}
	go tapsRunner.Run(n.ctx)
	pp := wasp.NewPacketProcessor(n.local, n.dstate, wr, tapsRunner, n.distributor, inflights)
	go pp.Run(n.ctx)
	n.cm = wasp.NewConnectionManager(authh, n.local, n.dstate, wr, pp, inflights)
	go n.cm.Run(n.ctx)
}

// rpc interceptor: the only "network" a node-to-node call ever sees
func (w *world) interceptor(src, dst int) grpc.UnaryClientInterceptor {
	return func(ctx context.Context, method string, req, reply interface{}, cc *grpc.ClientConn, invoker grpc.UnaryInvoker, opts ...grpc.CallOption) error {
		w.mu.Lock()
		k := [2]int{src, dst}
		w.rpcN[k]++
		n := w.rpcN[k]
		mode := w.rpcMode[k]
		part := w.blocked[pairKey(src, dst)]
		alive := w.nodes[dst].alive
		w.mu.Unlock()
		r := w.keyed("rpc", src, dst, n)
		tag := ""
		if sm, ok := req.(*api.ScheduleMessageRequest); ok && sm.Message != nil {
			tag = tagOf(sm.Message.Payload)
		}
		if tag != "" {
			// latencies are a function of the message carried, not of the order in which concurrent
			// callers reached this point; and no two calls take exactly equally long
			w.mu.Lock()
			w.rpcTagN[tag]++
			tn := w.rpcTagN[tag]
			w.mu.Unlock()
			r = w.keyed("rpc", src, dst, tag, tn)
		}
		jitter := time.Duration(r.Intn(900)) * time.Microsecond
		w.mu.Lock()
		w.rpcStarted = append(w.rpcStarted, rpcRec{Src: src, Dst: dst, Tag: tag, AtMs: w.nowMs()})
		w.mu.Unlock()
		rec := func(out string) {
			w.mu.Lock()
			w.rpcs = append(w.rpcs, rpcRec{Src: src, Dst: dst, Stamp: atomic.AddInt64(&w.stamp, 1), AtMs: w.nowMs(), Tag: tag, Outcome: out})
			w.mu.Unlock()
		}
		sleep := func(d time.Duration) bool {
			tm := time.NewTimer(d)
			defer tm.Stop()
			select {
			case <-tm.C:
				return true
			case <-ctx.Done():
				return false
			}
		}
		if !sleep(time.Duration(1+r.Intn(15))*time.Millisecond + jitter) {
			// the caller's own deadline ran out during the ordinary latency of a call: not a fault of
			// the simulator's making unless one is configured for this pair
			if alive && !part && (mode == "" || mode == "ok") {
				rec("ctx")
			} else {
				rec("ctx-faulted")
			}
			return status.FromContextError(ctx.Err()).Err()
		}
		switch {
		case !alive:
			w.statAdd("fault.rpc_dead_peer", 1)
			rec("dead")
			return status.Error(codes.Unavailable, "connection refused")
		case part || mode == "blackhole":
			w.statAdd("fault.rpc_blackhole", 1)
			// nobody answers; the simulator fails the call after a PRNG delay
			sleep(time.Duration(2000+r.Intn(8000)) * time.Millisecond)
			rec("blackhole")
			return status.Error(codes.Unavailable, "transport is closing")
		case mode == "fail":
			w.statAdd("fault.rpc_fastfail", 1)
			rec("fail")
			return status.Error(codes.Unavailable, "connection refused")
		}
		sm, ok := req.(*api.ScheduleMessageRequest)
		if !ok || method != "/api.MQTT/ScheduleMessage" {
			rec("unimplemented")
			return status.Error(codes.Unimplemented, method)
		}
		cp := &api.ScheduleMessageRequest{}
		b, err := proto.Marshal(sm)
		if err != nil {
			return err
		}
		if err := proto.Unmarshal(b, cp); err != nil {
			return err
		}
		resp, herr := w.nodes[dst].rpcsrv.ScheduleMessage(ctx, cp)
		sleep(time.Duration(1+r.Intn(15))*time.Millisecond + jitter/3)
		if mode == "lossresp" {
			w.statAdd("fault.rpc_response_lost", 1)
			rec("lossresp")
			return status.Error(codes.DeadlineExceeded, "response lost")
		}
		if herr != nil {
			rec("remote-error")
			return status.Error(codes.Unknown, herr.Error())
		}
		if rp, ok := reply.(*api.ScheduleMessageResponse); ok && resp != nil {
			*rp = *resp
		}
		rec("ok")
		return nil
	}
}

func pairKey(a, b int) [2]int {
	if a > b {
		a, b = b, a
	}
	return [2]int{a, b}
}

// ---------------------------------------------------------------------------------------
// running a case

type profileHooks struct {
	// judge runs after the scenario; it turns recorded facts into violations and probes
	judge func(w *world)
	// onStep runs after every driver step (optional)
	onStep func(w *world)
	// onStart runs once the nodes are up, before the first step (optional)
	onStart func(w *world)
}

func runE1(t *testing.T, c *Case, hooks profileHooks) *Outcome {
	o := newOutcome()
	var w *world
	func() {
		defer func() {
			if r := recover(); r != nil {
				msg := fmt.Sprint(r)
				if strings.Contains(msg, "harness:") || strings.Contains(msg, "deadlock: main bubble goroutine has exited") {
					fmt.Fprintf(os.Stderr, "HARNESS-TROUBLE: %s\n", msg)
					os.Exit(2)
				}
				panic(r)
			}
		}()
		if c.knob("sched", 0) == 1 {
			prev := runtime.GOMAXPROCS(1)
			defer runtime.GOMAXPROCS(prev)
		}
		if pm := c.knob("preempt_permille", 0); pm > 0 && c.knob("sched", 0) == 0 {
			// seeded preemption: at every instrumented statement of the broker (lockstep build) the
			// running goroutine gives way with probability pm/1000, decided by a counter-keyed hash
			// of the case seed; with one P the order of yield calls, and so the whole schedule, is a
			// function of the seed
			prev := runtime.GOMAXPROCS(1)
			defer runtime.GOMAXPROCS(prev)
			var ctr uint64
			seed := mix(c.Seed, "preempt")
			verifrt.YieldHook = func(site int, blocked bool) {
				if blocked {
					runtime.Gosched()
					return
				}
				n := atomic.AddUint64(&ctr, 1)
				if int64(splitmix(seed+n*0x9e3779b97f4a7c15)%1000) < pm {
					atomic.AddInt64(&preemptions, 1)
					runtime.Gosched()
				}
			}
			defer func() { verifrt.YieldHook = nil }()
		}
		body := func(t *testing.T) {
			synctest.Test(t, func(t *testing.T) {
				defer func() {
					if ctl != nil { // newWorld did not get as far as run()
						ctlStop()
					}
				}()
				w = newWorld(t, c, o)
				defer w.teardown()
				if hooks.onStart != nil {
					hooks.onStart(w)
				}
				w.run(hooks)
			})
		}
		if c.Build == "lockstep" {
			// under the race detector a report makes synctest.Test fail its *testing.T, which ends
			// the calling goroutine: give every run a T of its own
			t.Run("bubble", body)
		} else {
			body(t)
		}
	}()
	if c.Build == "lockstep" {
		for _, rr := range newRaceReportsInnermost() {
			if rr.a == "?" || rr.b == "?" {
				o.probe("race_reports_outside_wasp")
				continue
			}
			o.violate(c.Prop, "data-race", len(c.Steps), 0, map[string]string{"a": rr.a, "b": rr.b},
				"the race detector reported unsynchronised conflicting accesses in the running broker: %s <-> %s", rr.a, rr.b)
		}
	}
	if n := atomic.SwapInt64(&preemptions, 0); n > 0 {
		o.Stats["preemptions"] += n
	}
	o.History = w.hist
	o.Digest = hashStrings(w.hist)
	o.OrderHash = hashStrings(w.orderH)
	o.StateHash = hashStrings(w.stateH)
	o.Fingerprint = fingerprintSteps(c)
	for k, v := range w.stats {
		o.Stats[k] += v
	}
	return o
}

// ---------------------------------------------------------------------------------------
// controlled scheduling of the brokers' goroutines (knob sched=1, statement-instrumented build)
//
// Every goroutine that executes broker code parks at each instrumented statement (and at each
// failed try-lock) on a channel of its own - a durable block for synctest. The driver, which
// only runs when every goroutine of the bubble is durably blocked, picks one parked goroutine
// from its PRNG, releases it, and waits for quiescence again: between two decisions exactly one
// goroutine advances by one broker statement (goroutines it wakes run library code up to their
// own next broker statement and park there). One seed is one interleaving.

type ctlG struct {
	ch      chan struct{}
	site    int
	blocked bool
	seq     int64
	gid     int64 // goroutine id: creation order, the stable tie-break between goroutines at one site
}

type e1ctl struct {
	mu        sync.Mutex
	parked    []*ctlG
	driver    int32 // 1 while the driver goroutine itself is running (it calls broker code too)
	driverGid int64 // the driver is recognised by its goroutine id: it can be preempted while running
	holder    int64 // goroutine released last: it may pass budget further statements without parking
	budget    int64
	focus     string // if set: only statements of this source file count as scheduling points for the holder
	off       int32
	seq       int64
	seed      uint64
	n         uint64
	decisions int64
	maxParked int
	trace     uint64
	w         *world
}

var ctl *e1ctl
var schedTrace = os.Getenv("VERIF_SCHED_TRACE") != ""

// siteFiles: statement site -> source file, from the instrumenter's table.
var siteFiles map[int]string
var siteFileList []string

func loadSiteFiles() {
	if siteFiles != nil {
		return
	}
	siteFiles = map[int]string{}
	b, err := os.ReadFile(filepath.Join(os.Getenv("VERIF_SCRATCH_DIR"), "sites-lockstep.txt"))
	if err != nil {
		return
	}
	seen := map[string]bool{}
	for _, l := range strings.Split(string(b), "\n") {
		var id int
		var loc string
		if n, _ := fmt.Sscanf(l, "%d %s", &id, &loc); n == 2 {
			f := loc
			if i := strings.LastIndex(loc, ":"); i > 0 {
				f = loc[:i]
			}
			siteFiles[id] = f
			if !seen[f] {
				seen[f] = true
				siteFileList = append(siteFileList, f)
			}
		}
	}
	sort.Strings(siteFileList)
}

// focusKnob: the value of knob sched_focus that selects a given source file.
func focusKnob(file string) int64 {
	return int64(mix(0x5eed, file)%(1<<40)) + 1000
}

func ctlStart(w *world) {
	ctl = &e1ctl{seed: mix(w.c.Seed, "sched"), w: w, driver: 1, driverGid: goid()}
	// focus (swarm style): in some runs only the statements of one source file are scheduling
	// points for the goroutine that holds the turn - everywhere else it runs on. Fewer decisions,
	// each of them where two handlers of that file can actually cross.
	if fk := w.c.knob("sched_focus", 0); fk > 0 {
		loadSiteFiles()
		if len(siteFileList) > 0 {
			ctl.focus = siteFileList[int(fk-1)%len(siteFileList)]
			for _, f := range siteFileList { // a file named by focusKnob
				if focusKnob(f) == fk {
					ctl.focus = f
				}
			}
		}
	}
	verifrt.YieldHook = ctlHook
}

func ctlStop() {
	c := ctl
	if c == nil {
		return
	}
	atomic.StoreInt32(&c.off, 1)
	c.mu.Lock()
	ps := c.parked
	c.parked = nil
	c.mu.Unlock()
	for _, g := range ps {
		close(g.ch)
	}
	c.w.o.Stats["sched.decisions"] += c.decisions
	if int64(c.maxParked) > c.w.o.Stats["sched.max_parked"] {
		c.w.o.Stats["sched.max_parked"] = int64(c.maxParked)
	}
	c.w.orderH = append(c.w.orderH, fmt.Sprintf("sched%x", c.trace))
	verifrt.YieldHook = nil
	ctl = nil
}

func ctlHook(site int, blocked bool) {
	c := ctl
	if c == nil || atomic.LoadInt32(&c.off) == 1 {
		if blocked {
			runtime.Gosched()
		}
		return
	}
	gid := goid()
	if gid == c.driverGid {
		// the driver's own calls into the broker (gossip hand-over, listings, ...) are not scheduled
		if blocked {
			runtime.Gosched()
		}
		return
	}
	if !blocked && gid == atomic.LoadInt64(&c.holder) {
		if c.focus != "" && siteFiles[site] != c.focus {
			return // not a scheduling point in this run
		}
		if atomic.AddInt64(&c.budget, -1) >= 0 {
			return // still its turn: only this goroutine has been running broker code since the decision
		}
	}
	g := &ctlG{ch: make(chan struct{}), site: site, blocked: blocked, gid: gid}
	c.mu.Lock()
	if atomic.LoadInt32(&c.off) == 1 {
		c.mu.Unlock()
		return
	}
	c.seq++
	g.seq = c.seq
	c.parked = append(c.parked, g)
	c.mu.Unlock()
	select {
	case c.w.notify <- struct{}{}:
	default:
	}
	<-g.ch
}

// quiesce: wait until every goroutine of the bubble is durably blocked; under controlled
// scheduling, keep releasing parked goroutines one at a time until none is left (or only
// goroutines waiting for a lock whose holder is not runnable).
func (w *world) quiesce() {
	c := ctl
	if c == nil {
		synctest.Wait()
		return
	}
	blockedStreak := 0
	for {
		atomic.StoreInt32(&c.driver, 0)
		synctest.Wait()
		atomic.StoreInt32(&c.driver, 1)
		c.mu.Lock()
		if len(c.parked) == 0 {
			c.mu.Unlock()
			return
		}
		if len(c.parked) > c.maxParked {
			c.maxParked = len(c.parked)
		}
		allBlocked := true
		for _, g := range c.parked {
			if !g.blocked {
				allBlocked = false
			}
		}
		if allBlocked && blockedStreak > 2*len(c.parked) {
			// each has retried its lock since anything else moved: the holder is waiting for
			// something only time or the next event can bring
			c.mu.Unlock()
			return
		}
		sort.SliceStable(c.parked, func(i, j int) bool {
			a, b := c.parked[i], c.parked[j]
			if a.site != b.site {
				return a.site < b.site
			}
			return a.gid < b.gid
		})
		c.n++
		k := int(splitmix(c.seed+c.n*0x9e3779b97f4a7c15) % uint64(len(c.parked)))
		g := c.parked[k]
		c.parked = append(c.parked[:k], c.parked[k+1:]...)
		c.decisions++
		// how long it may run on: mostly a statement or a few, sometimes until it blocks (a
		// goroutine held back across a long stretch of another one is what uniform
		// statement-by-statement choice practically never produces)
		rb := splitmix(c.seed ^ c.n*0xd6e8feb86659fd93)
		var budget int64
		switch rb % 8 {
		case 0, 1, 2:
			budget = 0
		case 3, 4:
			budget = 1 + int64((rb>>8)%8)
		case 5:
			budget = 10 + int64((rb>>8)%50)
		case 6:
			budget = 100 + int64((rb>>8)%400)
		default:
			budget = 1 << 40
		}
		atomic.StoreInt64(&c.holder, g.gid)
		atomic.StoreInt64(&c.budget, budget)
		c.trace = splitmix(c.trace ^ uint64(g.site+2)*31 ^ uint64(k) ^ uint64(budget)<<20)
		if schedTrace {
			var sites []int
			for _, x := range c.parked {
				sites = append(sites, x.site)
			}
			fmt.Fprintf(os.Stderr, "SCHED %d pick site=%d blocked=%v k=%d rest=%v t=%d\n", c.decisions, g.site, g.blocked, k, sites, w.nowMs())
		}
		c.mu.Unlock()
		if g.blocked {
			blockedStreak++
		} else {
			blockedStreak = 0
		}
		if c.decisions > 3_000_000 {
			panic("harness: scheduling decision cap exceeded")
		}
		g.ch <- struct{}{}
	}
}

var preemptions int64

type seededReader struct{ r *rand.Rand }

func (s seededReader) Read(p []byte) (int, error) {
	for i := range p {
		p[i] = byte(s.r.Intn(256))
	}
	return len(p), nil
}

func newWorld(t *testing.T, c *Case, o *Outcome) *world {
	w := &world{t: t, c: c, o: o, start: time.Now(), clients: map[int]*simClient{}, conns: map[[2]int]*grpc.ClientConn{},
		blocked: map[[2]int]bool{}, rpcMode: map[[2]int]string{}, rpcN: map[[2]int]int{}, gossipN: map[[2]int]int{}, gsplitN: map[int]int{}, rpcTagN: map[string]int{},
		seed: c.Seed, stats: map[string]int64{}, leaveAt: map[[2]int]int64{}, lateGossip: map[[2]int]bool{}, notify: make(chan struct{}, 1), forcedDelay: map[int]int64{}, goTag: map[int64]string{}, viewAt: map[int][]string{}, pingKnow: map[int64]pingKnowledge{}, knownAtStop: map[int]map[string]bool{}, stopAt: map[int]int64{}}
	base := os.Getenv("VERIF_DATA")
	if base == "" {
		base = os.TempDir()
	}
	d, err := os.MkdirTemp(base, "w-")
	if err != nil {
		panic("harness: " + err.Error())
	}
	w.dataDir = d
	atomic.StoreInt64(&simConnSeq, 0)
	uuid.SetRand(seededReader{rand.New(rand.NewSource(int64(mix(c.Seed, "uuid"))))})
	// strictly increasing CRDT stamps derived from fake time
	distributed.VerifSetClock(func() int64 {
		now := time.Now().UnixNano()
		for {
			old := atomic.LoadInt64(&w.clock)
			nv := now
			if nv <= old {
				nv = old + 1
			}
			if atomic.CompareAndSwapInt64(&w.clock, old, nv) {
				return nv
			}
		}
	})
	if po := c.knob("maporder", 0); po != 0 {
		verifrt.OrderHook = func(keys []reflect.Value) {
			if len(keys) < 2 {
				return
			}
			h := mix(uint64(po), len(keys))
			for _, k := range keys {
				h = mix(h, fmt.Sprint(k.Interface()))
			}
			r := NewRand(h)
			for i := len(keys) - 1; i > 0; i-- {
				j := r.Intn(i + 1)
				keys[i], keys[j] = keys[j], keys[i]
			}
		}
	} else {
		verifrt.OrderHook = nil
	}
	nn := int(c.knob("nodes", 1))
	for i := 0; i < nn; i++ {
		w.nodes = append(w.nodes, w.newNode(i))
	}
	// pre-fill node 0's log before anything runs (C02)
	for i := int64(0); i < c.knob("prefill", 0); i++ {
		w.nodes[0].log.inner.Append(&packet.Publish{Header: &packet.Header{}, Topic: []byte("_prefill/x"), Payload: []byte(fmt.Sprintf("prefill%d", i))})
	}
	var authh wasp.AuthenticationHandler
	switch c.knob("auth", 2) {
	case 2:
		w.authTab = defaultAuthTable
		authh = &stubAuth{w}
	default:
		authh = w.buildAuth()
	}
	w.authh = authh
	w.restartAt = map[int]int64{}
	w.restartQuiet = map[int]bool{}
	w.incarn = map[int]int{}
	w.dispatchStamp = map[string]int64{}
	w.toldEver = map[[2]int]bool{}
	for i := 0; i < nn; i++ {
		for j := 0; j < nn; j++ {
			if i == j {
				continue
			}
			cc, err := grpc.Dial("passthrough:///sim", grpc.WithInsecure(),
				grpc.WithContextDialer(func(ctx context.Context, _ string) (net.Conn, error) {
					<-ctx.Done()
					return nil, ctx.Err()
				}),
				grpc.WithUnaryInterceptor(w.interceptor(i, j)))
			if err != nil {
				panic("harness: grpc dial: " + err.Error())
			}
			w.conns[[2]int{i, j}] = cc
			w.nodes[i].known[j] = true
		}
	}
	if c.knob("sched", 0) == 1 {
		// from the first broker goroutine on: the order in which the 20 publish workers queue up
		// on their channel is part of the schedule
		ctlStart(w)
	}
	for _, n := range w.nodes {
		w.startNode(n, authh)
	}
	// memberlist reports every peer it meets, also the ones that were there first
	for _, n := range w.nodes {
		for _, p := range w.nodes {
			if p != n {
				n.members.NotifyGossipJoin(p.id)
			}
		}
	}
	w.quiesce()
	// The brokers' periodic timers (100 ms log poller, 1 s expiry sweep) are anchored at this
	// instant. Everything the simulator does happens on a grid shifted by a fraction of a
	// millisecond, so that a simulator event never falls on the same instant as one of those
	// ticks (the order of two timers due at one instant is the Go runtime's choice).
	time.Sleep(377 * time.Microsecond)
	w.start = time.Now()
	return w
}

var defaultAuthTable = []authRow{{"u", "p", "_default"}, {"ua", "pa", "ta"}, {"ub", "pb", "tb"}, {"uc", "pc", "tc"}}

func (w *world) teardown() {
	for _, cl := range w.clients {
		cl.conn.Close()
	}
	for _, cl := range w.past {
		cl.conn.Close()
	}
	for _, n := range w.nodes {
		n.cancel()
	}
	for _, cc := range w.conns {
		cc.Close()
	}
	time.Sleep(15 * time.Second)
	synctest.Wait()
	for _, n := range w.nodes {
		n.log.inner.Close()
	}
	os.RemoveAll(w.dataDir)
	verifrt.OrderHook = nil
}

func (w *world) run(hooks profileHooks) {
	c := w.c
	if ctl != nil {
		defer ctlStop()
		w.quiesce()
	}
	if len(c.Steps) > 0 {
		w.push(&event{at: c.Steps[0].At, kind: "step", step: 0})
	}
	w.stepAt = make([]int64, len(c.Steps))
	w.stepEnd = make([]int64, len(c.Steps))
	w.stepOrd = make([]int64, len(c.Steps))
	limit := c.knob("max_sim_ms", 3_600_000)
	nEvents := 0
	for w.events.Len() > 0 {
		e := heap.Pop(&w.events).(*event)
		if e.at > limit {
			break
		}
		nEvents++
		if nEvents > 200000 {
			panic("harness: event cap exceeded")
		}
		// sleep until the event is due, waking up whenever a broker writes to (or closes) a
		// client connection so that clients react at the simulated instant they would, and at
		// least every 500 ms to notice broker-internal activity without client traffic
		requeued := false
		// every simulated millisecond gets its own sub-microsecond offset: a broker timer started at
		// one simulator instant (a 100 ms identifier retry, an 800 ms RPC deadline, a 3 s in-flight
		// deadline) then never falls on the exact instant of a later simulator event
		due := w.start.Add(time.Duration(e.at)*time.Millisecond + time.Duration(e.at%1009)*100*time.Nanosecond)
		for time.Now().Before(due) {
			// sleep to the exact instant on the simulator's own grid (a wake-up caused by a broker
			// write happens on the broker's grid; rounding from there would drift onto it)
			d := time.Until(due)
			if d > 500*time.Millisecond {
				d = 500 * time.Millisecond
			}
			tm := time.NewTimer(d)
			if ctl != nil {
				atomic.StoreInt32(&ctl.driver, 0)
			}
			select {
			case <-tm.C:
			case <-w.notify:
				tm.Stop()
			}
			w.quiesce()
			w.collect()
			if w.events.Len() > 0 && w.events[0].at < e.at {
				heap.Push(&w.events, e) // keeps its sequence number
				requeued = true
				break
			}
		}
		if requeued {
			nEvents--
			continue
		}
		select {
		case <-w.notify:
		default:
		}
		w.apply(e)
		for e.kind == "step" && !e.deferred && c.Steps[e.step].W && e.step+1 < len(c.Steps) {
			// the next step belongs to the same driver turn: the broker sees both requests at once
			w.stepEnd[e.step] = w.nowMs()
			e = &event{at: e.at, kind: "step", step: e.step + 1}
			w.apply(e)
		}
		w.quiesce()
		w.collect()
		if hooks.onStep != nil {
			hooks.onStep(w)
		}
		if e.kind == "step" && !e.deferred {
			w.stepEnd[e.step] = w.nowMs() + e.extraDur()
			if e.step+1 < len(c.Steps) {
				w.push(&event{at: w.stepEnd[e.step] + c.Steps[e.step+1].At, kind: "step", step: e.step + 1})
			} else {
				w.push(&event{at: w.stepEnd[e.step] + 100, kind: "finalsettle"})
			}
		}
	}
	w.curStep = len(c.Steps)
	if os.Getenv("VERIF_DEBUG_OBS") != "" {
		for _, ob := range w.obs {
			fmt.Fprintf(os.Stderr, "OBS %d@%d c%d.%d rx=%v %s\n", ob.Stamp, ob.AtMs, ob.Client, ob.Epoch, ob.Rx, ob.P)
		}
	}
	if hooks.judge != nil {
		hooks.judge(w)
	}
	w.o.SimMs = w.nowMs()
}

const settleDur = 4000

func (e *event) extraDur() int64 { return int64(e.j) }

func (w *world) apply(e *event) {
	w.evOrd++
	switch e.kind {
	case "step":
		w.curStep = e.step
		w.stepAt[e.step] = w.nowMs()
		w.stepOrd[e.step] = w.evOrd
		s := &w.c.Steps[e.step]
		w.orderH = append(w.orderH, fmt.Sprintf("%s/%d/%d", s.K, s.C, s.N))
		w.applyStep(e, s)
	case "finalsettle":
		w.beginSettle(len(w.c.Steps))
	case "gossiptick":
		n := w.nodes[e.i]
		n.tickPending = false
		if n.alive {
			w.gossipFrom(n)
		}
	case "gossipdeliver":
		dst := w.nodes[e.i]
		if !dst.alive {
			return
		}
		w.orderH = append(w.orderH, fmt.Sprintf("g%d>%d", e.j, e.i))
		w.logf("gossip %d->%d (%d msgs)", e.j, e.i, len(e.data))
		if _, told := w.leaveAt[[2]int{e.i, e.j}]; told || (e.inc < w.incarn[e.j] && w.toldEver[[2]int{e.i, e.j}]) {
			// also a datagram of the sender's previous process that arrives after the receiver was
			// told of that process's death (and possibly of its return)
			w.lateGossip[[2]int{e.i, e.j}] = true
			w.statAdd("gossip_delivered_after_leave", 1)
		}
		if ctl != nil {
			// under controlled scheduling a merge is a goroutine like any other (memberlist calls
			// NotifyMsg from its own): it interleaves with the clients' requests statement by statement
			data := e.data
			go func() {
				for _, m := range data {
					dst.dstate.Distributor().NotifyMsg(m)
				}
			}()
		} else {
			for _, m := range e.data {
				dst.dstate.Distributor().NotifyMsg(m)
			}
		}
		w.noteRecv(dst.idx, "gossip", e.data...)
		w.statAdd("gossip.delivered", int64(len(e.data)))
	case "presnapshot":
		// what every node lists once the broadcasts have been delivered (1.45 s of fault-free
		// gossip) and before any anti-entropy exchange of this settle; only meaningful when no
		// datagram is still under way and none was ever lost in this run
		w.preListings = nil
		pending := false
		for _, ev := range w.events {
			if ev.kind == "gossipdeliver" {
				pending = true
			}
		}
		if !pending && w.stats["fault.gossip_dropped"]+w.stats["fault.gossip_partitioned"] == w.lossAtSettle && w.stats["fault.node_stopped"] == 0 {
			w.preListings = map[int][]string{}
			for _, n := range w.nodes {
				if n.alive {
					w.preListings[n.idx] = listing(n.dstate)
				}
			}
		}
	case "unstall":
		if cl := w.clients[e.i]; cl != nil && cl.epoch == e.j {
			cl.conn.release()
		}
	case "pushpullall":
		w.pushPullAll()
	case "settlecheck":
		w.settleCheck(e.step)
	case "clienttx":
		if cl := w.clients[e.i]; cl != nil && cl.epoch == e.j && !cl.conn.linkDown() {
			st := atomic.AddInt64(&w.stamp, 1)
			cl.conn.feed(e.pkt)
			cl.lastTxAt = w.nowMs()
			w.orderH = append(w.orderH, fmt.Sprintf("tx%d", e.i))
			if len(e.pkt) == 4 { // a scripted acknowledgement: type, length 2, packet id
				w.mu.Lock()
				w.obs = append(w.obs, Obs{Step: w.curStep, AtMs: w.nowMs(), Stamp: st, Client: cl.idx, Epoch: cl.epoch, Auto: true,
					P: &mpkt{Type: int(e.pkt[0] >> 4), Pid: int(e.pkt[2])<<8 | int(e.pkt[3])}})
				w.mu.Unlock()
			}
		}
	case "nodeup":
		w.nodeUp(e.i)
	case "leave":
		obs, dead := w.nodes[e.i], e.j
		if w.nodes[dead].alive {
			break // it is back (and refutes the suspicion): nobody is told that it left
		}
		if obs.alive {
			w.mu.Lock()
			delete(obs.known, dead)
			w.mu.Unlock()
			if _, again := w.leaveAt[[2]int{e.i, dead}]; again {
				obs.members.NotifyGossipJoin(nodeID(dead))
				w.statAdd("fault.leave_repeated", 1)
			} else {
				w.leaveAt[[2]int{e.i, dead}] = w.nowMs()
			}
			w.toldEver[[2]int{e.i, dead}] = true
			obs.members.NotifyGossipLeave(nodeID(dead))
			w.statAdd("fault.leave_notified", 1)
			w.orderH = append(w.orderH, fmt.Sprintf("leave%d>%d", dead, e.i))
			w.logf("node %d notified that node %d left", e.i, dead)
		}
	}
}

func (w *world) applyStep(e *event, s *Step) {
	switch s.K {
	case "connect":
		if s.N < 0 || s.N >= len(w.nodes) || !w.nodes[s.N].alive {
			return
		}
		if s.G {
			// proviso of C12: the accepting node has already learned of the earlier session.
			// Wait for gossip to bring it; after 3 s of that let anti-entropy (push-pull) do it.
			if prev := w.latestByClientID(s.S, s.C); prev != nil && prev.sid != "" && w.nodes[prev.node].alive {
				if _, err := w.nodes[s.N].dstate.SessionMetadatas().Get(prev.sid); err != nil {
					if e.i < 60 {
						e.deferred = true
						w.push(&event{at: w.nowMs() + 50, kind: "step", step: e.step, i: e.i + 1})
						return
					}
					w.pushPull(prev.node, s.N)
					w.statAdd("takeover_proviso_by_pushpull", 1)
				}
			}
		}
		if old := w.clients[s.C]; old != nil {
			w.past = append(w.past, old)
		}
		cl := &simClient{idx: s.C, node: s.N, open: map[int]*rxExchange{}, downAt: -1, disconnAt: -1}
		if old := w.clients[s.C]; old != nil {
			cl.epoch = old.epoch + 1
			cl.plan = old.plan
		}
		cl.opts = connectOpts{ClientID: s.S, User: s.U, Pass: s.T, HasUser: s.U != "", HasPass: s.T != "", Keepalive: int(s.I), Clean: true, WillQos: s.Q, WillRetain: s.F}
		if len(s.L) == 2 {
			cl.opts.WillTopic, cl.opts.WillPayload = s.L[0], s.L[1]
		}
		cl.mount = w.mountOf(s.U, s.T)
		cl.conn = newSimConn(&w.stamp, w.start, w.notify)
		if s.J == 1 {
			// the link dies under the broker's first write to this connection: the CONNACK
			cl.conn.armWriteFailure()
			w.statAdd("fault.write_failure_armed", 1)
		}
		cl.connectAt = w.nowMs()
		w.clients[s.C] = cl
		n := w.nodes[s.N]
		go n.cm.Setup(n.ctx, transport.Metadata{Name: "tcp", Channel: cl.conn, RemoteAddress: fmt.Sprintf("10.0.0.%d:1", s.C)})
		w.send(cl, tCONNECT, encConnect(cl.opts), 0, "")
	case "rawconnect":
		if s.N < 0 || s.N >= len(w.nodes) || !w.nodes[s.N].alive {
			return
		}
		if old := w.clients[s.C]; old != nil {
			w.past = append(w.past, old)
		}
		cl := &simClient{idx: s.C, node: s.N, open: map[int]*rxExchange{}, downAt: -1, disconnAt: -1}
		cl.conn = newSimConn(&w.stamp, w.start, w.notify)
		cl.connectAt = w.nowMs()
		w.clients[s.C] = cl
		n := w.nodes[s.N]
		go n.cm.Setup(n.ctx, transport.Metadata{Name: "tcp", Channel: cl.conn, RemoteAddress: fmt.Sprintf("10.0.0.%d:1", s.C)})
	case "sub":
		if cl := w.live(s.C); cl != nil {
			w.send(cl, tSUBSCRIBE, encSubscribe(int(s.I), s.L, s.QL), int(s.I), strings.Join(s.L, ","))
		}
	case "unsub":
		if cl := w.live(s.C); cl != nil {
			w.send(cl, tUNSUBSCRIBE, encUnsubscribe(int(s.I), s.L), int(s.I), strings.Join(s.L, ","))
		}
	case "pub":
		if cl := w.live(s.C); cl != nil {
			payload := []byte(s.S)
			if s.J > 0 {
				payload = append(payload, '|')
				payload = append(payload, make([]byte, s.J)...)
				for i := len(s.S) + 1; i < len(payload); i++ {
					payload[i] = byte('a' + i%26)
				}
			}
			if w.c.knob("snapview", 0) == 1 {
				w.viewAt[e.step] = listing(w.nodes[cl.node].dstate)
			}
			w.sendPub(cl, s.T, payload, s.Q, s.F, s.G, int(s.I))
		}
	case "pkt":
		if cl := w.live(s.C); cl != nil {
			switch s.S {
			case "puback":
				w.send(cl, tPUBACK, encAck(tPUBACK, int(s.I)), int(s.I), "")
			case "pubrec":
				w.send(cl, tPUBREC, encAck(tPUBREC, int(s.I)), int(s.I), "")
			case "pubrel":
				w.send(cl, tPUBREL, encAck(tPUBREL, int(s.I)), int(s.I), "")
			case "pubcomp":
				w.send(cl, tPUBCOMP, encAck(tPUBCOMP, int(s.I)), int(s.I), "")
			case "pingreq":
				cl.pingsSent++
				know := pingKnowledge{}
				var succ *simClient
				for _, o := range w.clients {
					if o != cl && o.opts.ClientID == cl.opts.ClientID && o.mount == cl.mount && o.connectAt > cl.connectAt && o.sid != "" && (succ == nil || o.connectAt < succ.connectAt) {
						succ = o
					}
				}
				if succ != nil {
					host := w.nodes[cl.node]
					// "the host knows that this session has been displaced": it hosts the successor, or
					// the LWW fold of what it has been handed says the successor's record is live or
					// this session's own record has been removed
					know.newKnown = succ.node == cl.node
					var fs, fo kEntry
					for _, r := range w.recv {
						if r.Node == cl.node && r.Src != "emit" {
							for _, e := range r.Entries {
								if e.Key == "S|"+succ.sid && e.Stamp > fs.Stamp {
									fs = e
								}
								if e.Key == "S|"+cl.sid && e.Stamp > fo.Stamp {
									fo = e
								}
							}
						}
					}
					if fs.Live || (fo.Stamp > 0 && !fo.Live) {
						know.newKnown = true
					}
					_, err := host.dstate.SessionMetadatas().Get(cl.sid)
					know.oldLive = err == nil
				}
				st := w.send(cl, tPINGREQ, encSimple(tPINGREQ), 0, "")
				w.pingKnow[st] = know
			case "disconnect":
				cl.disconnAt = w.nowMs()
				w.send(cl, tDISCONNECT, encSimple(tDISCONNECT), 0, "")
			case "connect":
				w.send(cl, tCONNECT, encConnect(cl.opts), 0, "")
			}
		}
	case "cut":
		if cl := w.clients[s.C]; cl != nil && cl.downAt < 0 {
			cl.conn.cut()
			cl.downAt = w.nowMs()
			w.statAdd("fault.link_cut", 1)
		}
	case "stall":
		// the client stops reading for I ms: the broker's writes to it block that long
		if cl := w.clients[s.C]; cl != nil && cl.downAt < 0 {
			cl.conn.stall()
			w.statAdd("fault.client_stalled", 1)
			w.push(&event{at: w.nowMs() + s.I, kind: "unstall", i: s.C, j: cl.epoch})
		}
	case "writefail":
		// the link will die under the broker's next write to this client
		if cl := w.clients[s.C]; cl != nil && cl.downAt < 0 {
			cl.conn.armWriteFailure()
			w.statAdd("fault.write_failure_armed", 1)
		}
	case "close":
		if cl := w.clients[s.C]; cl != nil && cl.downAt < 0 {
			cl.conn.clientClose()
			cl.downAt = w.nowMs()
		}
	case "raw":
		if cl := w.clients[s.C]; cl != nil && cl.downAt < 0 {
			if s.J > 0 && int(s.J) < len(s.B) {
				// fragments: first now, the rest as separate events 5 ms apart
				cl.conn.feed(s.B[:s.J])
				at := w.nowMs()
				for off := int(s.J); off < len(s.B); off += int(s.J) {
					end := off + int(s.J)
					if end > len(s.B) {
						end = len(s.B)
					}
					at += 5
					w.push(&event{at: at, kind: "clienttx", i: cl.idx, j: cl.epoch, pkt: append([]byte(nil), s.B[off:end]...)})
				}
				w.statAdd("fault.fragmented", 1)
			} else {
				cl.conn.feed(s.B)
			}
			cl.lastTxAt = w.nowMs()
			w.mu.Lock()
			w.obs = append(w.obs, Obs{Step: w.curStep, AtMs: w.nowMs(), Stamp: atomic.AddInt64(&w.stamp, 1), Client: cl.idx, Epoch: cl.epoch, P: &mpkt{Type: 0, Payload: s.B}})
			w.mu.Unlock()
		}
	case "ackplan":
		if cl := w.clients[s.C]; cl != nil {
			cl.plan = s.L
			cl.planNext = 0
		}
	case "sleep":
		e.j = int(s.I)
	case "settle":
		w.beginSettle(e.step)
		e.j = settleDur
	case "pushpull":
		w.pushPull(s.N, int(s.I))
	case "partition":
		w.mu.Lock()
		w.blocked[pairKey(s.N, int(s.I))] = true
		w.faultsActive = true
		w.mu.Unlock()
		w.statAdd("fault.partition", 1)
	case "heal":
		w.mu.Lock()
		w.blocked = map[[2]int]bool{}
		w.mu.Unlock()
	case "stopnode":
		if s.G {
			w.stopNode(s.N, -1) // survivors are told by explicit "leaveat" steps only
		} else {
			w.stopNode(s.N, s.J)
		}
	case "restartnode":
		if !(s.N >= 0 && s.N < len(w.nodes) && w.nodes[s.N].alive) {
			break
		}
		if s.G {
			w.stopNode(s.N, -1)
		} else {
			w.stopNode(s.N, s.J)
		}
		w.push(&event{at: w.nowMs() + s.I, kind: "nodeup", i: s.N})
	case "leaveat": // observer N is told I left, J ms from now
		w.push(&event{at: w.nowMs() + s.J, kind: "leave", i: s.N, j: int(s.I)})
	case "latefrom": // every datagram node N gossips from now on takes I ms (no loss, no duplication)
		w.forcedDelay[s.N] = s.I
	case "rpcmode":
		w.mu.Lock()
		w.rpcMode[[2]int{s.N, int(s.I)}] = s.S
		w.mu.Unlock()
	case "appendfail":
		if s.N >= 0 && s.N < len(w.nodes) {
			l := w.nodes[s.N].log
			l.mu.Lock()
			l.failNext = int(s.I)
			l.mu.Unlock()
		}
	}
}

func (w *world) mountOf(user, pass string) string {
	for _, r := range w.authTab {
		if r.user == user && r.pass == pass {
			return r.mount
		}
	}
	return ""
}

func (w *world) live(c int) *simClient {
	cl := w.clients[c]
	if cl == nil || cl.downAt >= 0 || cl.sawClose {
		return nil
	}
	return cl
}

func (w *world) send(cl *simClient, typ int, b []byte, pid int, note string) int64 {
	// the stamp is taken before the bytes become visible to the broker: whatever the broker
	// does in reaction carries a later stamp, whichever goroutine the runtime runs first
	st := atomic.AddInt64(&w.stamp, 1)
	cl.conn.feed(b)
	cl.lastTxAt = w.nowMs()
	w.mu.Lock()
	w.obs = append(w.obs, Obs{Step: w.curStep, AtMs: w.nowMs(), Stamp: st, Client: cl.idx, Epoch: cl.epoch, P: &mpkt{Type: typ, Pid: pid, Topic: note}})
	w.mu.Unlock()
	return st
}

func (w *world) sendPub(cl *simClient, topic string, payload []byte, qos int, retain, dup bool, pid int) {
	st := atomic.AddInt64(&w.stamp, 1) // before the bytes are visible to the broker (see send)
	cl.conn.feed(encPublish(topic, payload, qos, retain, dup, pid))
	cl.lastTxAt = w.nowMs()
	w.mu.Lock()
	w.obs = append(w.obs, Obs{Step: w.curStep, AtMs: w.nowMs(), Stamp: st, Client: cl.idx, Epoch: cl.epoch,
		P: &mpkt{Type: tPUBLISH, Pid: pid, Topic: topic, Payload: payload, Qos: qos, Retain: retain, Dup: dup}})
	w.mu.Unlock()
}

// collect turns everything the brokers wrote since the last call into observations and
// client reactions, in canonical order.
func (w *world) collect() {
	ids := make([]int, 0, len(w.clients))
	for id := range w.clients {
		ids = append(ids, id)
	}
	sort.Ints(ids)
	now := w.nowMs()
	all := append([]*simClient(nil), w.past...)
	for _, id := range ids {
		all = append(all, w.clients[id])
	}
	for _, cl := range all {
		chunks := cl.conn.take()
		var lines []string
		for _, ch := range chunks {
			cl.rx = append(cl.rx, ch.b...)
			for cl.garbage == "" {
				p, n, ok, err := decodeOne(cl.rx)
				if err != nil {
					cl.garbage = err.Error()
					break
				}
				if !ok {
					break
				}
				cl.rx = cl.rx[n:]
				w.mu.Lock()
				w.obs = append(w.obs, Obs{Step: w.curStep, AtMs: ch.atMs, Stamp: ch.stamp, Client: cl.idx, Epoch: cl.epoch, Rx: true, P: p})
				w.mu.Unlock()
				lines = append(lines, w.canon(cl, p))
				w.react(cl, p, ch.atMs)
			}
		}
		if at := cl.conn.writeFailedAt(); at >= 0 && cl.downAt < 0 {
			cl.downAt = at
			cl.writeFailed = true
			w.statAdd("fault.link_died_under_write", 1)
		}
		if closed, at := cl.conn.brokerClosed(); closed && !cl.sawClose {
			cl.sawClose = true
			cl.closeAt = at
			lines = append(lines, "CLOSED")
		}
		if len(lines) > 0 {
			sort.Strings(lines)
			w.logf("c%d.%d <- %s", cl.idx, cl.epoch, strings.Join(lines, " "))
		}
	}
	_ = now
	w.mu.Lock()
	var alines []string
	for _, a := range w.appends[w.appLogged:] {
		res := "ok"
		if a.Err {
			res = "ERR"
		}
		if os.Getenv("VERIF_DEBUG_US") != "" {
			res += fmt.Sprintf("@%dus", a.AtUs)
		}
		alines = append(alines, fmt.Sprintf("n%d:%s:%s", a.Node, a.Tag, res))
	}
	w.appLogged = len(w.appends)
	for _, rp := range w.rpcs[w.rpcLogged:] {
		alines = append(alines, fmt.Sprintf("rpc%d>%d:%s:%s", rp.Src, rp.Dst, rp.Tag, rp.Outcome))
	}
	w.rpcLogged = len(w.rpcs)
	w.mu.Unlock()
	if len(alines) > 0 {
		sort.Strings(alines)
		w.logf("log %s", strings.Join(alines, " "))
	}
	// gossip: schedule a tick for every node that has something queued
	for _, n := range w.nodes {
		if n.alive && !n.tickPending && n.bcast.NumQueued() > 0 {
			n.tickPending = true
			at := w.nowMs()
			next := (at/200)*200 + n.phase
			for next <= at {
				next += 200
			}
			w.push(&event{at: next, kind: "gossiptick", i: n.idx})
		}
	}
}

// canon renders a received packet with broker-chosen packet identifiers left out, so that
// histories do not depend on allocation order across connections.
func (w *world) canon(cl *simClient, p *mpkt) string {
	switch p.Type {
	case tPUBLISH:
		return fmt.Sprintf("PUBLISH(q%d r%v d%v %s %s)", p.Qos, p.Retain, p.Dup, p.Topic, tagOf(p.Payload))
	case tPUBREL:
		return "PUBREL"
	}
	return p.String()
}

func (w *world) reactLatency(cl *simClient, what string, pid int) int64 {
	return int64(1 + w.keyed("react", cl.idx, cl.epoch, what, pid, len(cl.exch)).Intn(30))
}

// react is the scripted client: acknowledgement behaviour according to its plan.
func (w *world) react(cl *simClient, p *mpkt, at int64) {
	tx := func(typ int, pid int, what string) {
		w.push(&event{at: w.nowMs() + w.reactLatency(cl, what, pid), kind: "clienttx", i: cl.idx, j: cl.epoch, pkt: encAck(typ, pid)})
	}
	switch p.Type {
	case tCONNACK:
		if cl.connack == nil {
			cl.connack = p
			cl.connackAt = at
			if p.RC == 0 {
				taken := map[string]bool{}
				for _, o := range w.past {
					taken[o.sid] = true
				}
				for _, o := range w.clients {
					if o != cl {
						taken[o.sid] = true
					}
				}
				for _, id := range w.sessionsOfClient(w.nodes[cl.node], cl.opts.ClientID) {
					if !taken[id] {
						cl.sid = id
					}
				}
			}
		}
	case tPINGRESP:
		cl.pingResp++
	case tPUBLISH:
		if p.Qos == 0 {
			cl.exch = append(cl.exch, &rxExchange{qos: 0, tag: tagOf(p.Payload), state: 2, seen: 1, firstAt: at, lastAt: at, doneAt: at, topic: p.Topic, payload: string(p.Payload)})
			return
		}
		ex := cl.open[p.Pid]
		if ex == nil {
			plan := "ack"
			if cl.planNext < len(cl.plan) {
				plan = cl.plan[cl.planNext]
				cl.planNext++
			}
			ex = &rxExchange{pid: p.Pid, qos: p.Qos, tag: tagOf(p.Payload), plan: plan, firstAt: at, topic: p.Topic, payload: string(p.Payload)}
			cl.open[p.Pid] = ex
			cl.exch = append(cl.exch, ex)
		} else {
			if ex.state == 0 {
				ex.gaps = append(ex.gaps, at-ex.lastAt)
			}
			if ex.topic != p.Topic || ex.payload != string(p.Payload) || ex.qos != p.Qos {
				ex.plan += "!changed"
			}
		}
		if ex.state != 0 {
			// PUBLISH repeated after we answered: answer again (at-least-once), do not count as new
			ex.seen++
			ex.lastAt = at
			if ex.qos == 2 {
				tx(tPUBREC, p.Pid, "pubrec")
			}
			return
		}
		ex.seen++
		ex.lastAt = at
		ackType := tPUBACK
		if p.Qos == 2 {
			ackType = tPUBREC
		}
		switch {
		case ex.plan == "ack":
			tx(ackType, p.Pid, "ack")
			w.exAnswered(cl, ex, at)
		case strings.HasPrefix(ex.plan, "silent"):
			k := int(ex.plan[6] - '0')
			if ex.seen > k {
				tx(ackType, p.Pid, "ack")
				w.exAnswered(cl, ex, at)
			}
		case ex.plan == "wrongtype":
			if ex.seen == 1 {
				wt := tPUBREC
				if p.Qos == 2 {
					wt = tPUBACK
				}
				tx(wt, p.Pid, "wrong")
			} else if ex.seen > 2 {
				tx(ackType, p.Pid, "ack")
				w.exAnswered(cl, ex, at)
			}
		case ex.plan == "wrongid":
			if ex.seen == 1 {
				tx(ackType, (p.Pid+7777)%65535+1, "wrong")
			} else if ex.seen > 2 {
				tx(ackType, p.Pid, "ack")
				w.exAnswered(cl, ex, at)
			}
		case ex.plan == "never":
		}
	case tPUBREL:
		ex := cl.open[p.Pid]
		if ex != nil && ex.qos == 2 {
			if ex.relSeen > 0 {
				ex.gaps = append(ex.gaps, at-ex.relLast)
			}
			ex.relSeen++
			ex.relLast = at
			if strings.HasSuffix(ex.plan, "+norel") && ex.relSeen <= 2 {
				return // stay silent for two PUBRELs
			}
			ex.state = 2
			ex.doneAt = at
			delete(cl.open, p.Pid)
		}
		tx(tPUBCOMP, p.Pid, "pubcomp")
	case tPUBREC:
		// our own QoS 2 publish: continue the handshake unless a step does it by hand
		if w.c.knob("manual_pubrel", 0) == 0 {
			tx(tPUBREL, p.Pid, "pubrel")
		}
	}
}

func (w *world) exAnswered(cl *simClient, ex *rxExchange, at int64) {
	if ex.qos == 1 {
		ex.state = 2
		ex.doneAt = at
		delete(cl.open, ex.pid)
	} else {
		ex.state = 1
	}
}

// ---- gossip ----------------------------------------------------------------------------

func (w *world) gossipFrom(n *simNode) {
	limit := 1398
	if sp := w.c.knob("gossip_split_pct", 0); sp > 0 && !w.settling() {
		// memberlist fills whatever room is left in a packet: a small budget sends the queued
		// broadcasts in several datagrams which are then lost, delayed and duplicated separately
		w.gsplitN[n.idx]++
		if r := w.keyed("gsplit", n.idx, 0, w.gsplitN[n.idx]); int64(r.Intn(100)) < sp {
			limit = 40 + r.Intn(260)
			w.statAdd("fault.gossip_small_packet", 1)
		}
	}
	msgs := n.dstate.Distributor().GetBroadcasts(3, limit)
	if len(msgs) == 0 {
		return
	}
	cp := make([][]byte, len(msgs))
	for i, m := range msgs {
		cp[i] = append([]byte(nil), m...)
	}
	w.noteRecv(n.idx, "emit", cp...)
	drop := w.c.knob("gossip_drop_pct", 0)
	dup := w.c.knob("gossip_dup_pct", 0)
	maxd := w.c.knob("gossip_maxdelay_ms", 30)
	for _, p := range w.nodes {
		if p == n || !p.alive {
			continue
		}
		k := [2]int{n.idx, p.idx}
		w.gossipN[k]++
		r := w.keyed("gossip", n.idx, p.idx, w.gossipN[k])
		w.mu.Lock()
		part := w.blocked[pairKey(n.idx, p.idx)]
		w.mu.Unlock()
		if part {
			w.statAdd("fault.gossip_partitioned", 1)
			continue
		}
		if !w.settling() && int64(r.Intn(100)) < drop {
			w.statAdd("fault.gossip_dropped", 1)
			continue
		}
		if fd, forced := w.forcedDelay[n.idx]; forced {
			w.push(&event{at: w.nowMs() + fd, kind: "gossipdeliver", i: p.idx, j: n.idx, data: cp, inc: w.incarn[n.idx]})
			continue
		}
		d := int64(1 + r.Intn(int(maxd)))
		if !w.settling() && r.Bool(0.1) && maxd > 30 {
			d += int64(r.Intn(int(maxd) * 10)) // occasionally late enough to be overtaken
			w.statAdd("fault.gossip_delayed", 1)
		}
		w.push(&event{at: w.nowMs() + d, kind: "gossipdeliver", i: p.idx, j: n.idx, data: cp, inc: w.incarn[n.idx]})
		if !w.settling() && int64(r.Intn(100)) < dup {
			w.statAdd("fault.gossip_duplicated", 1)
			w.push(&event{at: w.nowMs() + d + int64(1+r.Intn(300)), kind: "gossipdeliver", i: p.idx, j: n.idx, data: cp, inc: w.incarn[n.idx]})
		}
	}
}

func (w *world) settling() bool { return !w.faultsActive && w.inSettle }

func (w *world) pushPull(a, b int) {
	if a < 0 || b < 0 || a >= len(w.nodes) || b >= len(w.nodes) || a == b {
		return
	}
	na, nb := w.nodes[a], w.nodes[b]
	w.mu.Lock()
	part := w.blocked[pairKey(a, b)]
	w.mu.Unlock()
	if !na.alive || !nb.alive || part {
		w.statAdd("fault.pushpull_failed", 1)
		return
	}
	sa := na.dstate.Distributor().LocalState(false)
	sb := nb.dstate.Distributor().LocalState(false)
	nb.dstate.Distributor().MergeRemoteState(sa, false)
	na.dstate.Distributor().MergeRemoteState(sb, false)
	w.noteRecv(b, "pushpull", sa)
	w.noteRecv(a, "pushpull", sb)
	w.statAdd("pushpull", 1)
	w.logf("pushpull %d<->%d", a, b)
	w.orderH = append(w.orderH, fmt.Sprintf("pp%d-%d", a, b))
}

func (w *world) pushPullAll() {
	for a := range w.nodes {
		for b := a + 1; b < len(w.nodes); b++ {
			w.pushPull(a, b)
		}
	}
}

func (w *world) beginSettle(step int) {
	w.mu.Lock()
	w.blocked = map[[2]int]bool{}
	w.rpcMode = map[[2]int]string{}
	w.faultsActive = false
	w.mu.Unlock()
	w.inSettle = true
	for _, n := range w.nodes {
		n.log.mu.Lock()
		n.log.failNext = 0
		n.log.mu.Unlock()
	}
	now := w.nowMs()
	w.push(&event{at: now + 1450, kind: "presnapshot"})
	w.push(&event{at: now + 1500, kind: "pushpullall"})
	w.push(&event{at: now + 3000, kind: "pushpullall"})
	w.push(&event{at: now + settleDur - 100, kind: "settlecheck", step: step})
}

func (w *world) settleCheck(step int) {
	w.inSettle = false
	// one synchronous full exchange: nothing inside the brokers can run between it and the
	// comparison, so the listings must be identical whatever timers fired during the settle
	w.pushPullAll()
	rec := settleRec{Step: step, AtMs: w.nowMs(), Listings: map[int][]string{}, Pre: w.preListings, Registry: map[int]map[string]bool{}}
	w.preListings = nil
	var first []string
	firstIdx := -1
	for _, n := range w.nodes {
		if !n.alive {
			continue
		}
		l := listing(n.dstate)
		rec.Listings[n.idx] = l
		reg := map[string]bool{}
		for _, s := range n.local.ListSessions() {
			reg[s.ID()] = true
		}
		rec.Registry[n.idx] = reg
		if firstIdx < 0 {
			first, firstIdx = l, n.idx
			continue
		}
		if a, b := diffLists(first, l); len(a)+len(b) > 0 {
			w.o.violate(w.c.Prop, "not-converged", step, w.nowMs(), map[string]string{"kinds": kindsOf(append(a, b...))},
				"after a settle (no faults, gossip drained, two push-pull rounds) node %d lists %v that node %d does not, and lacks %v", firstIdx, a, n.idx, b)
		}
	}
	w.settles = append(w.settles, rec)
	w.lossAtSettle = w.stats["fault.gossip_dropped"] + w.stats["fault.gossip_partitioned"]
	w.stateH = append(w.stateH, hashStrings(canonListing(first)))
	w.logf("settle %s", hashStrings(canonListing(first)))
}

// canonListing removes session ids (random uuids are seeded, but keep the digest readable)
func canonListing(l []string) []string { return l }

func (w *world) stopNode(i int, fixedDelay int64) {
	if i < 0 || i >= len(w.nodes) || !w.nodes[i].alive {
		return
	}
	n := w.nodes[i]
	n.alive = false
	n.cancel()
	w.stopAt[i] = w.nowMs()
	w.statAdd("fault.node_stopped", 1)
	for _, p := range w.nodes {
		if p.alive {
			m := map[string]bool{}
			for _, sm := range p.dstate.SessionMetadatas().All() {
				m[sm.SessionID] = true
			}
			w.knownAtStop[p.idx] = m
		}
	}
	base := int64(1000 + w.keyed("leavebase", i).Intn(5000))
	if b := w.c.knob("leave_base_ms", 0); b > 0 {
		base = b // fast failure detection: datagrams still in flight can arrive after the notification
	}
	spread := w.c.knob("leave_spread_ms", 1200)
	for _, cl := range w.clients {
		if cl.node == i && cl.downAt < 0 {
			cl.conn.Close() // the process is gone: its sockets are closed by the kernel
			cl.downAt = w.nowMs()
		}
	}
	for _, p := range w.nodes {
		if p.alive && fixedDelay >= 0 {
			d := fixedDelay
			if d == 0 {
				d = base + int64(w.keyed("leave", i, p.idx).Intn(int(spread)+1))
			}
			w.push(&event{at: w.nowMs() + d, kind: "leave", i: p.idx, j: i})
			if rep := w.c.knob("leave_repeat_ms", 0); rep > 0 {
				// a flapping peer: declared dead, seen again (a refutation still in flight), dead again
				w.push(&event{at: w.nowMs() + d + rep, kind: "leave", i: p.idx, j: i, step: -7})
			}
		}
	}
}

// nodeUp: the process of a stopped node is started again. It keeps what was on disk (node id, message
// log, consumer offset) and nothing else; it joins the cluster the way memberlist does, with a
// full-state exchange flagged as a join, and peers that had been told of its departure are told of
// its return.
func (w *world) nodeUp(i int) {
	old := w.nodes[i]
	if old.alive {
		return
	}
	old.log.inner.Close()
	n := w.newNode(i)
	w.mu.Lock()
	w.nodes[i] = n
	for j := range w.nodes {
		if j != i {
			n.known[j] = true
			w.nodes[j].known[i] = true
		}
	}
	w.mu.Unlock()
	w.startNode(n, w.authh)
	// unnoticed: it is back before every live peer had been told that it left (a peer that was told
	// removes the records it knows of, which need not be all of them)
	for _, p := range w.nodes {
		if _, told := w.leaveAt[[2]int{p.idx, i}]; p != n && p.alive && !told {
			w.restartQuiet[i] = true
		}
	}
	w.restartAt[i] = w.nowMs()
	w.incarn[i]++
	w.statAdd("fault.node_restarted", 1)
	if w.restartQuiet[i] {
		w.statAdd("fault.node_restarted_unnoticed", 1)
	}
	w.orderH = append(w.orderH, fmt.Sprintf("up%d", i))
	w.logf("node %d is up again", i)
	joined := false
	for _, p := range w.nodes {
		if p == n || !p.alive {
			continue
		}
		if _, told := w.leaveAt[[2]int{p.idx, i}]; told {
			p.members.NotifyGossipJoin(n.id)
			delete(w.leaveAt, [2]int{p.idx, i})
		}
		n.members.NotifyGossipJoin(p.id)
		w.mu.Lock()
		part := w.blocked[pairKey(i, p.idx)]
		w.mu.Unlock()
		if !joined && !part {
			joined = true
			sp := p.dstate.Distributor().LocalState(true)
			sn := n.dstate.Distributor().LocalState(true)
			n.dstate.Distributor().MergeRemoteState(sp, true)
			p.dstate.Distributor().MergeRemoteState(sn, true)
			w.noteRecv(i, "pushpull", sp)
			w.noteRecv(p.idx, "pushpull", sn)
			w.statAdd("pushpull_join", 1)
		}
	}
}

// sessionOf finds the session id a node's registry holds for a client connection.
func (w *world) sessionsOfClient(n *simNode, clientID string) []string {
	var ids []string
	for _, s := range n.local.ListSessions() {
		if s.ClientID() == clientID {
			ids = append(ids, s.ID())
		}
	}
	sort.Strings(ids)
	return ids
}

// latestByClientID: the most recent earlier connection (any client index) using this client id.
func (w *world) latestByClientID(clientID string, except int) *simClient {
	var best *simClient
	consider := func(cl *simClient) {
		if cl.opts.ClientID == clientID && (best == nil || cl.connectAt > best.connectAt) {
			best = cl
		}
	}
	for _, cl := range w.past {
		consider(cl)
	}
	for id, cl := range w.clients {
		if id != except {
			consider(cl)
		}
	}
	return best
}
