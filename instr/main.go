// verif-instr rewrites a scratch copy of vx-labs/wasp so that the simulator owns two
// sources of nondeterminism that have no seam in the code:
//
//	maporder : every `for k, v := range m` over a map iterates over verifrt.Keys(m)
//	           (sorted, optionally permuted by the simulator) instead of Go's random order.
//	lockstep : additionally a verifrt.Yield(site) before every statement of the selected
//	           packages, and x.Lock()/x.RLock() on sync mutexes become scheduler-aware
//	           try-lock loops.
//
// Standard library only: `go list -export -deps -json` gives export data for go/importer,
// go/types gives the types of range operands and Lock receivers, rewriting is done by
// splicing text at AST positions (comments and line numbers stay where they were).
//
// usage: verif-instr -dir <scratch copy> -mode maporder|lockstep [-pkgs p1,p2] -report <file>
package main

import (
	"bytes"
	"encoding/json"
	"flag"
	"fmt"
	"go/ast"
	"go/importer"
	"go/parser"
	"go/token"
	"go/types"
	"io"
	"os"
	"os/exec"
	"path/filepath"
	"sort"
	"strings"
)

type listPkg struct {
	ImportPath string
	Dir        string
	Export     string
	GoFiles    []string
	CgoFiles   []string
	Standard   bool
	Module     *struct{ Path, Dir string }
}

type splice struct {
	pos  int // byte offset in file
	end  int // == pos for pure insert
	text string
}

type report struct {
	Mode          string   `json:"mode"`
	MapRanges     []string `json:"map_ranges_rewritten"`
	MapRangesLeft []string `json:"map_ranges_left_alone"`
	Yields        int      `json:"yields_inserted"`
	Locks         []string `json:"locks_rewritten"`
	LocksLeft     []string `json:"locks_left_alone"`
	Files         int      `json:"files_rewritten"`
	Sites         []string `json:"-"`
}

const rtPath = "github.com/vx-labs/wasp/v4/verifrt"

var noYieldFiles = map[string]bool{}

func main() {
	dir := flag.String("dir", "", "scratch copy of the module")
	mode := flag.String("mode", "maporder", "maporder|lockstep")
	pkgsFlag := flag.String("pkgs", "", "comma separated import path suffixes (relative to module) that get yields in lockstep mode")
	reportPath := flag.String("report", "", "where to write the JSON report")
	sitesPath := flag.String("sites", "", "where to write the yield site table")
	tags := flag.String("tags", "verif", "build tags")
	noYieldFlag := flag.String("noyield", "", "comma separated module-relative files that get no yields (callbacks run by uninstrumented code under its own locks)")
	flag.Parse()
	if *dir == "" {
		fatal("need -dir")
	}
	for _, f := range strings.Split(*noYieldFlag, ",") {
		if f != "" {
			noYieldFiles[f] = true
		}
	}
	yieldPkgs := map[string]bool{}
	for _, p := range strings.Split(*pkgsFlag, ",") {
		if p != "" {
			yieldPkgs[p] = true
		}
	}

	cmd := exec.Command("go", "list", "-export", "-deps", "-json", "-tags", *tags, "./...")
	cmd.Dir = *dir
	cmd.Stderr = os.Stderr
	out, err := cmd.Output()
	if err != nil {
		fatal("go list failed: %v", err)
	}
	exports := map[string]string{}
	var mine []listPkg
	dec := json.NewDecoder(bytes.NewReader(out))
	var modPath string
	for {
		var p listPkg
		if err := dec.Decode(&p); err == io.EOF {
			break
		} else if err != nil {
			fatal("go list json: %v", err)
		}
		if p.Export != "" {
			exports[p.ImportPath] = p.Export
		}
		if p.Module != nil && samePath(p.Module.Dir, *dir) {
			modPath = p.Module.Path
			mine = append(mine, p)
		}
	}
	fset := token.NewFileSet()
	imp := importer.ForCompiler(fset, "gc", func(path string) (io.ReadCloser, error) {
		e, ok := exports[path]
		if !ok {
			return nil, fmt.Errorf("no export data for %s", path)
		}
		return os.Open(e)
	})
	rep := &report{Mode: *mode}
	for _, p := range mine {
		if p.ImportPath == rtPath {
			continue
		}
		rel := strings.TrimPrefix(strings.TrimPrefix(p.ImportPath, modPath), "/")
		doYield := *mode == "lockstep" && yieldPkgs[rel]
		if err := instrumentPkg(fset, imp, p, rel, doYield, rep); err != nil {
			fatal("%s: %v", p.ImportPath, err)
		}
	}
	sort.Strings(rep.MapRanges)
	if *reportPath != "" {
		b, _ := json.MarshalIndent(rep, "", " ")
		os.WriteFile(*reportPath, b, 0644)
	}
	if *sitesPath != "" {
		os.WriteFile(*sitesPath, []byte(strings.Join(rep.Sites, "\n")+"\n"), 0644)
	}
	fmt.Fprintf(os.Stderr, "verif-instr: mode=%s files=%d map_ranges=%d left=%d yields=%d locks=%d locks_left=%d\n",
		*mode, rep.Files, len(rep.MapRanges), len(rep.MapRangesLeft), rep.Yields, len(rep.Locks), len(rep.LocksLeft))
}

func samePath(a, b string) bool {
	aa, _ := filepath.EvalSymlinks(a)
	bb, _ := filepath.EvalSymlinks(b)
	return aa == bb
}

func fatal(f string, a ...interface{}) {
	fmt.Fprintf(os.Stderr, "verif-instr: "+f+"\n", a...)
	os.Exit(2)
}

func instrumentPkg(fset *token.FileSet, imp types.Importer, p listPkg, rel string, doYield bool, rep *report) error {
	var files []*ast.File
	var names []string
	for _, f := range p.GoFiles {
		full := filepath.Join(p.Dir, f)
		af, err := parser.ParseFile(fset, full, nil, parser.ParseComments)
		if err != nil {
			return err
		}
		files = append(files, af)
		names = append(names, full)
	}
	if len(p.CgoFiles) > 0 {
		return nil // cannot type-check without cgo processing; wasp has none
	}
	info := &types.Info{
		Types:      map[ast.Expr]types.TypeAndValue{},
		Selections: map[*ast.SelectorExpr]*types.Selection{},
	}
	conf := types.Config{Importer: imp, GoVersion: "go1.14", Error: func(err error) {}}
	pkg, err := conf.Check(p.ImportPath, fset, files, info)
	if err != nil {
		// A tree that does not type-check cannot be built either; report and stop.
		return fmt.Errorf("type check: %v", err)
	}
	for i, af := range files {
		src, err := os.ReadFile(names[i])
		if err != nil {
			return err
		}
		tf := fset.File(af.Pos())
		off := func(pos token.Pos) int { return tf.Offset(pos) }
		var sp []splice
		short := filepath.Join(rel, filepath.Base(names[i]))
		isPB := strings.HasSuffix(names[i], ".pb.go")

		ast.Inspect(af, func(n ast.Node) bool {
			switch s := n.(type) {
			case *ast.RangeStmt:
				tv, ok := info.Types[s.X]
				if !ok {
					return true
				}
				mt, ok := tv.Type.Underlying().(*types.Map)
				if !ok {
					return true
				}
				where := fmt.Sprintf("%s:%d", short, fset.Position(s.Pos()).Line)
				kt := typeName(mt.Key(), pkg, af)
				if kt == "" || !pureExpr(s.X) {
					rep.MapRangesLeft = append(rep.MapRangesLeft, where+" (key type or operand not expressible)")
					return true
				}
				m := string(src[off(s.X.Pos()):off(s.X.End())])
				key, val := "", ""
				if id, ok := s.Key.(*ast.Ident); ok && id.Name != "_" {
					key = id.Name
				} else if s.Key != nil {
					if _, isIdent := s.Key.(*ast.Ident); !isIdent {
						rep.MapRangesLeft = append(rep.MapRangesLeft, where+" (non-identifier key)")
						return true
					}
				}
				if s.Value != nil {
					if id, ok := s.Value.(*ast.Ident); ok {
						if id.Name != "_" {
							val = id.Name
						}
					} else {
						rep.MapRangesLeft = append(rep.MapRangesLeft, where+" (non-identifier value)")
						return true
					}
				}
				var b strings.Builder
				fmt.Fprintf(&b, "for _, __vk := range verifrt.Keys(%s) { ", m)
				k := key
				if s.Tok == token.ASSIGN && key != "" {
					fmt.Fprintf(&b, "%s = __vk.Interface().(%s); ", key, kt)
				} else {
					if k == "" {
						k = "__k"
					}
					fmt.Fprintf(&b, "%s := __vk.Interface().(%s); ", k, kt)
				}
				if val != "" && s.Tok == token.ASSIGN {
					fmt.Fprintf(&b, "var __ok bool; %s, __ok = %s[%s]; ", val, m, k)
				} else if val != "" {
					fmt.Fprintf(&b, "%s, __ok := %s[%s]; ", val, m, k)
				} else {
					fmt.Fprintf(&b, "_, __ok := %s[%s]; ", m, k)
				}
				b.WriteString("if !__ok { continue }; ")
				// replace from "for" up to and including the body's opening brace
				sp = append(sp, splice{pos: off(s.For), end: off(s.Body.Lbrace) + 1, text: b.String()})
				rep.MapRanges = append(rep.MapRanges, where)
			case *ast.CallExpr:
				if !doYield {
					return true
				}
				sel, ok := s.Fun.(*ast.SelectorExpr)
				if !ok || len(s.Args) != 0 {
					return true
				}
				if sel.Sel.Name != "Lock" && sel.Sel.Name != "RLock" {
					return true
				}
				selection, ok := info.Selections[sel]
				if !ok {
					return true
				}
				fn, ok := selection.Obj().(*types.Func)
				if !ok || fn.Pkg() == nil || fn.Pkg().Path() != "sync" {
					return true
				}
				recv := fn.Type().(*types.Signature).Recv().Type()
				if ptr, ok := recv.(*types.Pointer); ok {
					recv = ptr.Elem()
				}
				named, ok := recv.(*types.Named)
				if !ok {
					return true
				}
				where := fmt.Sprintf("%s:%d", short, fset.Position(s.Pos()).Line)
				if len(selection.Index()) != 1 {
					rep.LocksLeft = append(rep.LocksLeft, where+" (promoted method)")
					return true
				}
				var fname string
				switch named.Obj().Name() + "." + sel.Sel.Name {
				case "Mutex.Lock":
					fname = "Lock"
				case "RWMutex.Lock":
					fname = "LockRW"
				case "RWMutex.RLock":
					fname = "RLock"
				default:
					return true
				}
				x := string(src[off(sel.X.Pos()):off(sel.X.End())])
				xt := info.Types[sel.X].Type
				arg := "&" + x
				if _, isPtr := xt.Underlying().(*types.Pointer); isPtr {
					arg = x
				}
				sp = append(sp, splice{pos: off(s.Pos()), end: off(s.End()), text: fmt.Sprintf("verifrt.%s(%s)", fname, arg)})
				rep.Locks = append(rep.Locks, where)
			}
			return true
		})

		if doYield && !isPB && !noYieldFiles[short] {
			addYields := func(list []ast.Stmt) {
				for _, st := range list {
					switch st.(type) {
					case *ast.DeclStmt, *ast.CaseClause, *ast.CommClause:
						continue
					}
					site := len(rep.Sites)
					rep.Sites = append(rep.Sites, fmt.Sprintf("%d %s:%d", site, short, fset.Position(st.Pos()).Line))
					sp = append(sp, splice{pos: off(st.Pos()), end: off(st.Pos()), text: fmt.Sprintf("verifrt.Yield(%d); ", site)})
					rep.Yields++
				}
			}
			ast.Inspect(af, func(n ast.Node) bool {
				switch b := n.(type) {
				case *ast.BlockStmt:
					addYields(b.List)
				case *ast.CaseClause:
					addYields(b.Body)
				case *ast.CommClause:
					addYields(b.Body)
				}
				return true
			})
		}
		if len(sp) == 0 {
			continue
		}
		// import right after the package clause, on the same line
		pkgEnd := off(af.Name.End())
		sp = append(sp, splice{pos: pkgEnd, end: pkgEnd, text: "; import verifrt \"" + rtPath + "\""})
		sort.SliceStable(sp, func(a, b int) bool {
			if sp[a].pos != sp[b].pos {
				return sp[a].pos < sp[b].pos
			}
			// pure inserts go before replacements that start at the same offset
			return sp[a].end == sp[a].pos && sp[b].end != sp[b].pos
		})
		var outb bytes.Buffer
		cur := 0
		for _, s := range sp {
			if s.pos < cur {
				return fmt.Errorf("%s: overlapping rewrite at offset %d", names[i], s.pos)
			}
			outb.Write(src[cur:s.pos])
			outb.WriteString(s.text)
			cur = s.end
		}
		outb.Write(src[cur:])
		if err := os.WriteFile(names[i], outb.Bytes(), 0644); err != nil {
			return err
		}
		rep.Files++
	}
	return nil
}

// pureExpr: identifiers, selectors, parens, derefs — safe to evaluate more than once.
func pureExpr(e ast.Expr) bool {
	switch x := e.(type) {
	case *ast.Ident:
		return true
	case *ast.SelectorExpr:
		return pureExpr(x.X)
	case *ast.ParenExpr:
		return pureExpr(x.X)
	case *ast.StarExpr:
		return pureExpr(x.X)
	}
	return false
}

// typeName prints t as it can be written in file f, or "" when it cannot.
func typeName(t types.Type, pkg *types.Package, f *ast.File) string {
	switch x := t.(type) {
	case *types.Basic:
		return x.Name()
	case *types.Named:
		obj := x.Obj()
		if obj.Pkg() == nil {
			return obj.Name()
		}
		if obj.Pkg() == pkg {
			return obj.Name()
		}
		for _, im := range f.Imports {
			p := strings.Trim(im.Path.Value, "\"")
			if p != obj.Pkg().Path() {
				continue
			}
			if im.Name != nil {
				if im.Name.Name == "_" || im.Name.Name == "." {
					return ""
				}
				return im.Name.Name + "." + obj.Name()
			}
			return obj.Pkg().Name() + "." + obj.Name()
		}
		return ""
	}
	return ""
}
