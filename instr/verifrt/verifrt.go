// Package verifrt is copied into the instrumented scratch copy of wasp
// (github.com/vx-labs/wasp/v4/verifrt). It is the run-time half of verif-instr:
// simulator-ordered map iteration, and yield / try-lock points for the lockstep engine.
// With no hooks installed everything degrades to "sorted keys" and "no-op".
package verifrt

import (
	"fmt"
	"reflect"
	"runtime"
	"sort"
	"sync"
)

// OrderHook, when set, may permute the (already sorted) keys in place. It must be a pure
// function of its input and of simulator state that does not depend on call order.
var OrderHook func(keys []reflect.Value)

// YieldHook is called at every instrumented statement (site >= 0) and from try-lock loops
// (blocked == true). Set once before any task starts.
var YieldHook func(site int, blocked bool)

// Keys returns the keys of map m in simulator-decided order.
func Keys(m interface{}) []reflect.Value {
	v := reflect.ValueOf(m)
	if v.Kind() != reflect.Map || v.Len() == 0 {
		return nil
	}
	keys := v.MapKeys()
	switch v.Type().Key().Kind() {
	case reflect.String:
		sort.Slice(keys, func(i, j int) bool { return keys[i].String() < keys[j].String() })
	case reflect.Int, reflect.Int8, reflect.Int16, reflect.Int32, reflect.Int64:
		sort.Slice(keys, func(i, j int) bool { return keys[i].Int() < keys[j].Int() })
	case reflect.Uint, reflect.Uint8, reflect.Uint16, reflect.Uint32, reflect.Uint64, reflect.Uintptr:
		sort.Slice(keys, func(i, j int) bool { return keys[i].Uint() < keys[j].Uint() })
	default:
		sort.Slice(keys, func(i, j int) bool {
			return fmt.Sprint(keys[i].Interface()) < fmt.Sprint(keys[j].Interface())
		})
	}
	if h := OrderHook; h != nil {
		h(keys)
	}
	return keys
}

// Yield is inserted before every statement in lockstep mode.
func Yield(site int) {
	if h := YieldHook; h != nil {
		h(site, false)
	}
}

func blocked() {
	if h := YieldHook; h != nil {
		h(-1, true)
	} else {
		runtime.Gosched()
	}
}

// Lock replaces (*sync.Mutex).Lock.
func Lock(m *sync.Mutex) {
	for !m.TryLock() {
		blocked()
	}
}

// LockRW replaces (*sync.RWMutex).Lock.
func LockRW(m *sync.RWMutex) {
	for !m.TryLock() {
		blocked()
	}
}

// RLock replaces (*sync.RWMutex).RLock.
func RLock(m *sync.RWMutex) {
	for !m.TryRLock() {
		blocked()
	}
}
