#!/usr/bin/env python3
# Regenerates MANIFEST.json from the table below (keeps it schema-valid at all times).
import json, subprocess
hooks_commit = "76a60ed"
claimed = {
 # id: (engine, level, design_ref, technique, text, note)
 "C01": ("E1 simbroker/route + route-live", "exploration", "5 C01", "deterministic whole-broker simulation (synctest fake clock, simulated connections/gossip/RPC, seeded scenarios), reference MQTT matcher as oracle; second variant judges publishes issued while subscription gossip is in flight against the LWW fold of what the publishing node has been handed; client links dying under a broker write while the client is still a registered recipient; ddmin replay files",
         "Seeded search over subscribe/unsubscribe/re-subscribe histories and publish bursts on 1-3 simulated nodes with gossip loss/duplication/delay; every (publish, session) pair is judged against an independent MQTT 3.1.1 matcher, so wrong matches, missed '#'/'+' cases, order dependence and pruning errors surface as copy-count mismatches. Sampling with a coverage count, not exhaustive enumeration.",
         "Trusts the harness's own MQTT codec and matcher, the synctest fake clock, the maporder instrumentation (map ranges iterate in simulator order) and the stubs listed in the evidence file; goroutine order inside one step is left to the Go runtime (canonical determinism, see DESIGN 2.1)."),
 "C02": ("E1 simbroker/pipeline", "exploration", "5 C02", "deterministic whole-broker simulation with pre-filled real commit log on tmpfs, seeded publish sequences crossing segment and truncation boundaries, subscribers that acknowledge at once or only after one or more retransmission deadlines, QoS 2 publishers that release at once, late, or only after the broker's handshake deadline, at-least-once oracle over acknowledged publishes",
         "Every publish the publisher saw acknowledged must reach every subscriber that stayed connected with a matching filter, byte-identical; logs start empty or pre-filled around the batch/segment/truncation boundaries and bursts of up to 2600 publishes cross them inside the run.",
         "Fault-free network; 1-2 nodes, judged subscribers on the acknowledging log's node, subscribers of the other node present as neighbours in every match list; real vx-labs/commitlog files under the simulated broker; same trusted base as C01."),
 "C04": ("E2 ackq + E3 lockstep (-race)", "exploration", "5 C04", "sequential simulation of the real ack.Queue and both expiration.List implementations under synthetic time against a map model, plus PRNG-scheduled concurrent tasks under the race detector (lockstep engine)",
         "Register/acknowledge/sweep histories with equal, same-second, past and future deadlines and non-monotone sweep times; exactly-once callbacks, isolation between entries and the one-second expiry band are checked after every operation and by a final far-future sweep.",
         "Deadlines and sweep instants are parameters of the real API, so no clock stub is involved; 'honoured to the second' is read as a +-1 s band."),
 "C06": ("E2 idpool + E1 simbroker/ids + E3 lockstep (-race)", "exploration", "5 C06", "sequential simulation of the real allocator against a set model with a final drain; whole-broker simulation in which the identifiers of all exchanges open at the same time on one node must be pairwise distinct (late PUBREC/PUBCOMP, retries; in 40 % of the cases the harness holds all but 1-4 identifiers of the writer's pool so that exhaustion is reached); plus PRNG-scheduled concurrent tasks under the race detector with a porcupine set model (lockstep engine)",
         "Allocate/release histories (including releases of free, unknown, out-of-range ids and release-first) on small ranges and on 0..65535; a final drain must hand out exactly the free identifiers once each.",
         "Values outside [min,max] returned by Get are taken as the exhaustion report."),
 "C08": ("E2 repl/converge + E3 lockstep (-race)", "exploration", "5 C08", "sequential multi-replica simulation of the real distributed.State with per-node offset clocks; seeded permutation/duplication/batching of captured broadcasts; reference LWW fold as oracle; plus concurrent delivery of competing updates by PRNG-scheduled tasks under the race detector (lockstep engine)",
         "Updates produced by real mutators on 1-3 origin replicas with clock offsets are delivered to 2-3 fresh replicas under independent plans (permuted, duplicated, batched, via NotifyMsg or MergeRemoteState); all receivers must equal the LWW fold of the update set.",
         "Timestamps are unique across nodes (ties not generated); broadcasts are the real protobuf bytes; in 30 % of the cases a receiver carries the peer id of an origin (the owner of the records, restarted empty)."),
 "C09": ("E2 repl/bcast + E3 lockstep (-race)", "exploration", "5 C09", "sequential two-replica simulation: mutators on A, A's real broadcast queue drained into B after every operation or after batches of 2-5; listing equality and broadcast-key coverage as oracles, a quarter of the cases with an audit recorder that returns errors; plus concurrent local changes on one node by PRNG-scheduled tasks under the race detector, after which a fresh node fed every queued broadcast must equal the origin (lockstep engine)",
         "After every session/subscription/retained mutator (including bulk DeletePeer/DeleteSession over 0, 1, many entries) B must list exactly what A lists, and the broadcast must name every key whose visible state changed on A.",
         "Single strictly increasing clock, no loss (loss and reordering are C08's and C10's subjects)."),
 "C10": ("E2 repl/pushpull", "exploration", "5 C10", "sequential two-replica simulation with lossy gossip followed by real LocalState/MergeRemoteState exchange; per-replica LWW reference model",
         "Interleaved histories on A and B with each gossip batch delivered or lost, then snapshot A->B, B->A, fresh-B or both; the merged replica must equal the LWW merge of the two reference models (additions and removals), and both directions must yield identical listings.",
         "Clocks synchronised (skew is C08's subject); 40 % of the exchanges are of the Join kind (join=true on both sides)."),
 "C11": ("E1 simbroker/lifecycle + displace + E1c sched", "exploration", "5 C11", "deterministic whole-broker simulation with fake time: session scripts with idle periods relative to the keep-alive and one termination cause (DISCONNECT, cut, close, link dying under a broker write - including the CONNACK -, silence, protocol error, node stop; sessions shorter than a gossip interval; second variant: displacement by a newer session with the same client id), gossip faults, settle (listings judged before and after the anti-entropy exchange), then traffic towards every session",
         "No spurious end while the client stays within 0.9x keep-alive; on end the broker closes the connection within a cause-specific bound, no node lists the session or its subscriptions after the settle, nothing more is written to it, and at quiescence every listed subscription belongs to a listed, locally registered session.",
         "The allowance is taken as 2x keep-alive (+5 s bound); keep-alive 0 not generated; one open known finding (gossip delivered after the leave notification)."),
 "C19": ("E2 tries + E3 lockstep (-race)", "exploration", "5 C19", "sequential simulation of topics.Store and subscriptions.Tree against a Go map keyed by full topic strings, with dump/load rebuild as the restart-like event, plus PRNG-scheduled concurrent tasks under the race detector with a porcupine map model (lockstep engine)",
         "Insert/replace/remove/upsert histories over keys with shared prefixes with a dump/load round trip at a random position; after every operation every key of the universe, the count and the iteration are compared with the map.",
         "Keys without wildcards or empty levels (those are C01's); values may be empty (an empty value is no entry). Half of the sequential cases compare with the map only at the end, because queries are not free of side effects on the store."),
}
pending = {
 "C03": "check under construction (E1 retx profile)", "C05": "check under construction (E1 inbound profile)", "C07": "check under construction (E1 retained profile)",
 "C12": "check under construction (E1 takeover profile)", "C13": "check under construction (E1 wills profile)", "C14": "check under construction (E1 xnode profile)",
 "C15": "check under construction (E2 logcrash)", "C16": "check under construction (E1 auth profile)", "C17": "check under construction (E1 tenants profile)",
 "C18": "check under construction (E1 hostile profile)", "C20": "check under construction (E3 lockstep engine with the race detector)",
}
import importlib.util, os
ovr = os.path.join(os.path.dirname(__file__), "manifest_table.py")
if os.path.exists(ovr):
    spec = importlib.util.spec_from_file_location("mt", ovr); mt = importlib.util.module_from_spec(spec); spec.loader.exec_module(mt)
    claimed.update(getattr(mt, "claimed", {})); pending = getattr(mt, "pending", pending)
    for k in claimed: pending.pop(k, None)
commits = subprocess.check_output(["git","-C","/repo","log","--format=%h %s"]).decode().splitlines()
hook_commits = [l.split()[0] for l in commits if l.split(' ',1)[1].startswith("verif hooks")]
m = {
 "version": 1,
 "setup_cmd": "cd /verif && ./setup.sh",
 "hooks": {"guard": "verif", "enable": "go build tag: -tags verif (plus source instrumentation of a scratch copy by /verif/instr, see DESIGN 2.0)",
           "baseline_off_cmd": "cd /repo && GOFLAGS=-mod=mod GOPROXY=off go test -vet=off -count=1 ./...", "source_commits": hook_commits, "add_only": True},
 "engines": [
  {"name": "E1 simbroker", "path": "/verif/h (world_test.go, simconn_test.go, mqttc_test.go, e1_*_test.go)", "serves_properties": ["C01","C02","C03","C05","C07","C11","C12","C13","C14","C16","C17","C18"], "kind_free_text": "whole wasp broker(s) in one testing/synctest bubble: fake clock, simulated client connections, gossip, RPC, fault injection, seeded scenarios, ddmin, JSON replay"},
  {"name": "E2 simcomp", "path": "/verif/h (repl_test.go, comp_test.go, logcrash_test.go)", "serves_properties": ["C04","C06","C08","C09","C10","C15","C19"], "kind_free_text": "sequential component simulations of real wasp objects against small reference models"},
  {"name": "E1c simbroker under controlled goroutine scheduling", "path": "/verif/h/world_test.go (ctl*, quiesce), /verif/instr", "serves_properties": ["C03","C05","C07","C11","C12","C13","C14","C20"], "kind_free_text": "the E1 world on the statement-instrumented build: every broker goroutine parks at each statement (a durable block for synctest), the driver releases one at a time from its PRNG with a run budget; same-turn client requests; deterministic and replayable. C20/e1 instead uses seeded runtime.Gosched preemption under the race detector (statistical, replay by retry)"},
  {"name": "E3 lockstep", "path": "/verif/h (lockstep_*_test.go), /verif/instr", "serves_properties": ["C20","C03","C04","C06","C08","C09","C19"], "kind_free_text": "PRNG-scheduled tasks released one at a time at instrumented yield points, race detector as oracle"},
 ],
 "checks": [], "not_applicable": [],
 "notes": "All checks: ./run <ID> quick|thorough; exit 0 held / 1 VIOLATION / 2 harness trouble. Known findings: /verif/KNOWN_FINDINGS.json (open entries print KNOWN-FINDING and are backed by pinned replays under /verif/known/).",
}
for pid in sorted(claimed):
    eng, level, ref, tech, text, note = claimed[pid]
    m["checks"].append({"property_id": pid, "quick_cmd": "./run %s quick" % pid, "thorough_cmd": "./run %s thorough" % pid,
      "evidence_file": "/verif/evidence/%s.json" % pid, "replay_cmd_template": "./run replay {path}", "engine": eng,
      "level_claimed": {"category": level, "text": text, "design_ref": "DESIGN.md section " + ref}, "level_note": note, "technique": tech})
for pid in sorted(pending):
    m["not_applicable"].append({"property_id": pid, "reason": pending[pid]})
json.dump(m, open("/verif/MANIFEST.json","w"), indent=1)
print("manifest:", len(m["checks"]), "checks,", len(m["not_applicable"]), "not yet claimed")
