#!/bin/bash
# mutant_eval.sh <ID> [dir]  - confirm a seeded change independently, then run the check against it.
#   dir defaults to /tmp/mutants/<ID>; expects patch.diff, README.md and the demonstration file(s).
# 1. in a scratch worktree of /repo: patch applies, build + existing tests pass
# 2. applies it to /repo itself, runs ./run <ID> quick, restores /repo
set -u
ID=$1; D=${2:-/tmp/mutants/$ID}
export GOFLAGS=-mod=mod GOPROXY=off GOSUMDB=off GOTOOLCHAIN=local
# 0. the demonstration, in the seeder's own worktree (patch applied, demo file in place)
WTBASE=${WTBASE:-/tmp/wt}
if [ -d $WTBASE/$ID ]; then
  cmd=$(grep 'go test' $D/README.md | grep -- '-run' | head -1 | sed -e 's/.*\(go test[^`]*\).*/\1/' -e 's/`.*//' -e 's/[[:space:]]*$//')
  if [ -n "$cmd" ]; then
    (cd $WTBASE/$ID && eval "$cmd" > /tmp/demo_$ID.with 2>&1); a=$?
    (cd $WTBASE/$ID && git apply -R $D/patch.diff && eval "$cmd" > /tmp/demo_$ID.without 2>&1; b=$?; git apply $D/patch.diff; exit $b); b=$?
    echo "demo [$cmd]: with patch rc=$a (want !=0), without rc=$b (want 0)"
  else
    echo "demo command not found in README"
  fi
fi
W=/tmp/mv/$ID
git -C /repo worktree remove --force $W 2>/dev/null; rm -rf $W
git -C /repo worktree add -q --detach $W HEAD || exit 2
cd $W
git apply $D/patch.diff || { echo "PATCH-DOES-NOT-APPLY"; exit 2; }
go build ./... || { echo "MUTANT-DOES-NOT-BUILD"; exit 2; }
go test -vet=off -count=1 ./... 2>&1 | grep -v "no test files" | grep -v "^ok" | head -5
echo "existing tests with mutant: rc=${PIPESTATUS[0]}"
# the demonstration again, in this fresh worktree (the seeders' worktrees share one stash and have been mixed up before)
if [ -f $D/demo_test.go ]; then
  pdir=$(head -1 $D/demo_test.go | sed -n 's#^// place in: *##p' | sed 's#^\./##; s#/*$##')
  cmd=$(grep 'go test' $D/README.md | grep -- '-run' | head -1 | sed -e 's/.*\(go test[^`]*\).*/\1/' -e 's/`.*//' -e 's/[[:space:]]*$//')
  if [ -n "$pdir" ] && [ -d "$W/$pdir" ] && [ -n "$cmd" ]; then
    cp $D/demo_test.go $W/$pdir/demo_test.go
    eval "$cmd" > /tmp/demo2_$ID.with 2>&1; a=$?
    git apply -R $D/patch.diff; eval "$cmd" > /tmp/demo2_$ID.without 2>&1; b=$?; git apply $D/patch.diff
    rm -f $W/$pdir/demo_test.go
    echo "demo in fresh worktree [$cmd]: with patch rc=$a (want !=0), without rc=$b (want 0)"
  else
    echo "demo in fresh worktree: cannot place (dir='$pdir' cmd='$cmd')"
  fi
fi
cd /verif
rm -f /verif/replays/$ID-*.json
if [ -n "${SCRATCH:-}" ]; then
  # leave /repo alone (a background run is reading it): the checks build from the scratch worktree
  CHK=${CHECK:-$ID}
  VERIF_REPO=$W ./run $CHK ${TIER:-quick} > /tmp/mutant_$ID.out 2>&1; rc=$?
  git -C /repo worktree remove --force $W; rm -rf $W
else
  git -C /repo worktree remove --force $W; rm -rf $W
  git -C /repo apply $D/patch.diff || exit 2
  ./run ${CHECK:-$ID} ${TIER:-quick} > /tmp/mutant_$ID.out 2>&1; rc=$?
  git -C /repo checkout -- .
fi
git -C /verif checkout -- evidence 2>/dev/null  # evidence files must come from runs against the unchanged tree
echo "check rc=$rc"; grep "^violation\|^summary\|^KNOWN" /tmp/mutant_$ID.out | cut -c1-260 | head -12
