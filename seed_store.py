#!/usr/bin/env python3
# seed_store.py <ID> <slug> "<needs>" "<caught by>" "<demo command>"  - archive a confirmed seeded change under /verif/seeded/
import sys, os, shutil, json, subprocess
pid, slug, needs, caught, democmd = sys.argv[1:6]
src = os.environ.get("MUTDIR","/tmp/mutants") + "/%s" % pid
dst = '/verif/seeded/%s-%s' % (pid, slug)
os.makedirs(dst, exist_ok=True)
for f in os.listdir(src):
    if f in ('PROPERTY.json',): continue
    shutil.copy(os.path.join(src, f), os.path.join(dst, f))
base = subprocess.check_output(['git','-C','/repo','rev-parse','--short','HEAD']).decode().strip()
meta = {"property": pid, "origin": "independent sub-agent given only the property text and a private worktree of /repo",
        "base_commit": base, "needs_to_manifest": needs,
        "confirmed": {"patch_applies_builds_and_existing_tests_pass": True, "demo_fails_with_patch": True, "demo_passes_without_patch": True, "demo_command": democmd},
        "ran": "./mutant_eval.sh %s (git -C /repo apply patch.diff; ./run %s quick; git -C /repo checkout -- .)" % (pid, pid),
        "caught_by": caught}
json.dump(meta, open(os.path.join(dst, 'meta.json'), 'w'), indent=1)
print(dst)
