#!/bin/bash
# Offline setup: warm the Go build cache (std for go1.26.8 incl. -race, wasp's dependencies, the harness).
cd "$(dirname "$0")"
export GOFLAGS=-mod=mod GOPROXY=off GOSUMDB=off GOTOOLCHAIN=local
VERIF_SCRATCH=${VERIF_SCRATCH:-/dev/shm}
d=$(./run build maporder 2>/dev/null | tail -1); [ -d "$d" ] && rm -rf "$d"
d=$(./run build lockstep 2>/dev/null | tail -1); [ -d "$d" ] && rm -rf "$d"
exit 0
